#!/bin/bash
# Runs the repository's pinned test suite with the verif build tag OFF and compares with /root/.vp/BASELINE.json.
export GOFLAGS=-mod=mod GOPROXY=off GOSUMDB=off GOTOOLCHAIN=local
out=$(mktemp /verif/tmp.baseline.XXXXXX.json)
(cd /repo && go test -mod=mod -json -vet=off -count=1 -p 1 -timeout 25m ./... > "$out" 2>/dev/null)
python3 - "$out" <<'PY'
import json,sys
passed=set()
for line in open(sys.argv[1]):
    try: e=json.loads(line)
    except Exception: continue
    if e.get("Action")=="pass" and e.get("Test"):
        passed.add(e["Package"]+"::"+e["Test"])
base=json.load(open("/root/.vp/BASELINE.json"))["stable_pass"]
missing=[t for t in base if t not in passed]
print("baseline tests: %d, passed now: %d, missing: %d"%(len(base),len(passed&set(base)),len(missing)))
for t in missing: print("MISSING",t)
sys.exit(1 if missing else 0)
PY
rc=$?; rm -f "$out"; exit $rc
