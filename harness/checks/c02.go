package checks

import (
	"context"
	"errors"
	"fmt"
	"math/rand/v2"
	"runtime"
	"sync"
	"sync/atomic"
	"time"

	"github.com/failsafe-go/failsafe-go"
	"github.com/failsafe-go/failsafe-go/retrypolicy"

	"verifharness/vk"
)

func init() { register("C02", checkC02) }

type retryCfg struct {
	MaxRetries  int     `json:"max_retries"` // -1 unlimited
	ViaAttempts bool    `json:"via_max_attempts"`
	Overridden  bool    `json:"other_setter_called_first,omitempty"`
	Handle      condSet `json:"handle"`
	Abort       condSet `json:"abort"`
	ReturnLast  bool    `json:"return_last_failure"`
	MaxDuration int64   `json:"max_duration,omitempty"`
}

type step struct {
	Res  int   `json:"res"`
	Err  int   `json:"err"`            // index into c02Errs
	Busy int64 `json:"busy,omitempty"` // ns slept before returning
}

// the last two are what a function returns when a limit of its own (a per-call context, an HTTP client timeout) ends it:
// errors that wrap the context package's sentinels although the execution itself is neither cancelled nor expired
var c02Errs = []error{nil, errE1, errE2, errE3, valErr{9}, fmt.Errorf("wrapped: %w", errE1), &ptrErr{9}, fmt.Errorf("call: %w", context.DeadlineExceeded), fmt.Errorf("call: %w", context.Canceled)}
var c02ErrNames = []string{"nil", "E1", "E2", "E3", "valErr", "wrap(E1)", "ptrErr", "wrap(DeadlineExceeded)", "wrap(Canceled)"}

func (s step) String() string { return fmt.Sprintf("(%d,%s)", s.Res, c02ErrNames[s.Err]) }

func buildRetry(c retryCfg) retrypolicy.RetryPolicyBuilder[int] {
	b := retrypolicy.Builder[int]()
	// Overridden: the other setter was called first with a different bound; as with every builder method the later call
	// decides (the two are documented as the same bound counted differently)
	if c.Overridden {
		if c.ViaAttempts {
			b.WithMaxRetries(7)
		} else {
			b.WithMaxAttempts(vk.Pick2(c.MaxRetries, 9, -1))
		}
	}
	if c.ViaAttempts {
		if c.MaxRetries == -1 {
			b.WithMaxAttempts(-1)
		} else {
			b.WithMaxAttempts(c.MaxRetries + 1)
		}
	} else {
		b.WithMaxRetries(c.MaxRetries)
	}
	applyHandle[retrypolicy.RetryPolicyBuilder[int]](b, c.Handle)
	for _, a := range c.Abort {
		switch a {
		case "E":
			b.AbortOnErrors(errE1)
		case "R":
			b.AbortOnResult(7)
		case "I":
			b.AbortIf(c12Pred)
		case "Es":
			errs := []error{errE1, errE2}
			b.AbortOnErrors(errs...)
			errs[0], errs[1] = errE3, errE3
		case "EE":
			b.AbortOnErrors(errE1, errE2)
		case "EE2":
			b.AbortOnErrors(errE2, errE1)
		case "TT":
			b.AbortOnErrorTypes(valErr{}, &ptrErr{})
		case "TT2":
			b.AbortOnErrorTypes(&ptrErr{}, valErr{})
		default:
			b.AbortOnErrorTypes(typeSample(a))
		}
	}
	if c.ReturnLast {
		b.ReturnLastFailure()
	}
	if c.MaxDuration != 0 {
		b.WithMaxDuration(time.Duration(c.MaxDuration))
	}
	return b
}

// retryExpect is the statement's stopping rule. Returns the 1-based index of the last invocation and how it ends:
// "pass" (stopping outcome unchanged), "abort", "exceeded". unjudged is set for A6 situations.
func retryExpect(c retryCfg, script []step) (stop int, how string, unjudged bool) {
	failures := 0
	for i := 0; ; i++ {
		var s step
		if i < len(script) {
			s = script[i]
		} else {
			s = step{Res: 5}
		}
		err := c02Errs[s.Err]
		if !c.Handle.isFailure(s.Res, err) {
			return i + 1, "pass", false
		}
		failures++
		hasR := false
		for _, a := range c.Abort {
			hasR = hasR || a == "R"
		}
		if hasR && err != nil && s.Res == 7 {
			return i + 1, "", true
		}
		ab, _ := c.Abort.matches(s.Res, err)
		exceeded := c.MaxRetries != -1 && failures > c.MaxRetries
		if ab && exceeded {
			return i + 1, "abort-or-exceeded", false // A1
		}
		if ab {
			return i + 1, "abort", false
		}
		if exceeded {
			return i + 1, "exceeded", false
		}
		if i > 64 {
			return i + 1, "diverges", true
		}
	}
}

func genRetryCase(r *rand.Rand) (retryCfg, []step) {
	handles := []condSet{{}, {}, {"E"}, {"R"}, {"I"}, {"E", "R"}, {"Tv"}, {"R", "I"}, {"E", "Tvp", "R"}, {"TT"}, {"EE2", "R"}, {"Es"}}
	aborts := []condSet{{}, {}, {}, {"E"}, {"R"}, {"I"}, {"Tv"}, {"E", "R"}, {"TT2"}, {"EE"}, {"Es"}}
	c := retryCfg{MaxRetries: vk.Pick(r, 0, 1, 2, 3, 5, -1), ViaAttempts: r.IntN(3) == 0, Overridden: r.IntN(4) == 0, Handle: handles[r.IntN(len(handles))], Abort: aborts[r.IntN(len(aborts))], ReturnLast: r.IntN(2) == 0}
	n := c.MaxRetries + 3
	if c.MaxRetries == -1 {
		n = 8
	}
	n = 1 + r.IntN(n)
	var script []step
	for i := 0; i < n; i++ {
		st := step{Res: vk.Pick(r, 0, 0, 7, 9, 5), Err: vk.Pick(r, 0, 1, 1, 2, 3, 4, 5, 6, 7, 8)}
		if r.IntN(3) == 0 {
			st.Err = 0
		}
		script = append(script, st)
	}
	return c, script
}

func checkC02(rep *vk.Report) {
	rep.Rule = "(A) sequential: maxRetries/maxAttempts in {0,1,2,3,5,unlimited} x handle-condition lists x abort-condition lists x ReturnLastFailure x scripts of up to maxRetries+3 outcomes; the invocation count must equal the index of the first stopping outcome (non-failure, abort match, or failures = maxRetries+1) and the returned value must be the stopping outcome unchanged, ExceededError{last} or the last outcome; plus WithMaxDuration cases with sleeping steps judged one-sidedly from time.Since(exec.StartTime()) sampled in the function. Plus result conditions on a pointer-bearing result type with separately allocated deep-equal values. (B) concurrent: 16-32 goroutines x many executions (sync and async) sharing ONE policy and executor, each with its own script and expectation, under the race detector. (H) Hedge(Retry(fn)) with a slow first attempt and hedged attempts failing at once: at most maxHedges+1 first invocations plus maxRetries re-invocations in total, Retries() and OnRetry <= maxRetries. Non-trivial: at least one retry, abort or exhaustion; distinct by (maxRetries, handle list, abort list, return-last, outcome sequence, ending)."
	rep.Assumptions = []string{
		"A1: an abort-matching failure on the attempt that exhausts the budget may end as ExceededError or unchanged",
		"A6: AbortOnResult on outcomes that also carry an error is not judged",
		"A8: WithMaxAttempts(-1) is unlimited; negative values other than -1 are not generated",
		"max-duration clauses are one-sided (elapsed sampled inside the function is a lower bound of what the policy saw)",
	}
	nA := scale(rep, 20000, 400000)
	vk.Parallel(nA, 16, func(idx int) {
		if rep.Skip(idx) {
			return
		}
		r := vk.Rng(rep.Seed, "C02", idx)
		c, script := genRetryCase(r)
		ex := failsafe.NewExecutor[int](buildRetry(c).Build())
		runRetryScript(rep, idx, "A", c, script, ex, r.IntN(4))
	})
	nD := scale(rep, 400, 8000)
	vk.Parallel(nD, 16, func(i int) {
		idx := nA + i
		if rep.Skip(idx) {
			return
		}
		retryMaxDuration(rep, idx)
	})
	vk.Parallel(scale(rep, 300, 10000), 16, func(i int) {
		if rep.Skip(nA + nD + 900000000 + i) {
			return
		}
		c02Deep(rep, nA+nD+900000000+i)
	})
	// (B) concurrent sharing
	vk.Parallel(scale(rep, 400, 20000), 32, func(i int) {
		if rep.Skip(950000000 + i) {
			return
		}
		c02HedgedBudget(rep, 950000000+i)
	})
	rounds := scale(rep, 12, 200)
	for round := 0; round < rounds; round++ {
		base := nA + nD + round*100000
		r := vk.Rng(rep.Seed, "C02B", round)
		c, _ := genRetryCase(r)
		c.MaxDuration = 0
		ex := failsafe.NewExecutor[int](buildRetry(c).Build())
		g := 16 + r.IntN(17)
		per := scale(rep, 60, 150)
		var wg sync.WaitGroup
		for w := 0; w < g; w++ {
			wg.Add(1)
			go func(w int) {
				defer wg.Done()
				for j := 0; j < per; j++ {
					idx := base + w*1000 + j
					if rep.Skip(idx) {
						continue
					}
					rr := vk.Rng(rep.Seed, "C02B", idx)
					_, script := genRetryCase(rr)
					if c.MaxRetries == -1 && len(script) > 8 {
						script = script[:8]
					}
					runRetryScript(rep, idx, "B", c, script, ex, 4+rr.IntN(4))
					rep.Count("B_concurrent_executions", 1)
				}
			}(w)
		}
		wg.Wait()
	}
	rep.Require("A_nontrivial", 100)
	rep.Require("B_concurrent_executions", 1000)
	rep.Require("B_overlapping_executions_observed", 100)
}

var c02InFlight atomic.Int64

// runRetryScript runs one execution with the script and compares with the statement's rule. mode selects the entry
// point: 0 Get, 1 GetWithExecution, 2 GetAsync, 3 GetWithExecutionAsync; +4 = yield inside the function (concurrent part).
func runRetryScript(rep *vk.Report, idx int, part string, c retryCfg, script []step, ex failsafe.Executor[int], mode int) {
	stop, how, unjudged := retryExpect(c, script)
	if unjudged {
		rep.Count("not_judged_A6_or_divergent", 1)
		return
	}
	calls := 0
	yield := mode >= 4
	fn := func() (int, error) {
		i := calls
		calls++
		if yield {
			if c02InFlight.Add(1) > 1 {
				rep.Count("B_overlapping_executions_observed", 1)
			}
			runtime.Gosched()
			c02InFlight.Add(-1)
		}
		if calls > stop+3 {
			return 5, nil // run-away guard: more invocations than the rule admits
		}
		if i < len(script) {
			return script[i].Res, c02Errs[script[i].Err]
		}
		return 5, nil
	}
	var res int
	var err error
	switch mode % 4 {
	case 0:
		res, err = ex.Get(fn)
	case 1:
		res, err = ex.GetWithExecution(func(failsafe.Execution[int]) (int, error) { return fn() })
	case 2:
		res, err = ex.GetAsync(fn).Get()
	default:
		res, err = ex.GetWithExecutionAsync(func(failsafe.Execution[int]) (int, error) { return fn() }).Get()
	}
	rep.Eval()
	cs := map[string]any{"cfg": c, "script": fmt.Sprint(script), "part": part, "mode": mode}
	if calls != stop {
		rep.Violate(idx, "C02/invocation-count/"+part, fmt.Sprintf("function invoked %d times, rule says %d (ending %s); cfg %+v script %v; returned (%d,%v)", calls, stop, how, c, script, res, err), cs)
		return
	}
	var last step
	if stop-1 < len(script) {
		last = script[stop-1]
	} else {
		last = step{Res: 5}
	}
	lastErr := c02Errs[last.Err]
	unchanged := res == last.Res && err == lastErr
	var xe retrypolicy.ExceededError
	isExceeded := errors.As(err, &xe) && errors.Is(err, retrypolicy.ErrExceeded) && xe.LastResult == any(last.Res) && xe.LastError == lastErr && res == 0
	ok := false
	switch how {
	case "pass", "abort":
		ok = unchanged
	case "exceeded":
		if c.ReturnLast {
			ok = unchanged
		} else {
			ok = isExceeded
		}
	case "abort-or-exceeded":
		ok = unchanged || isExceeded
	}
	if !ok {
		rep.Violate(idx, "C02/final-result/"+part, fmt.Sprintf("ending %s after %d invocations, last outcome %v: caller got (%d,%v); cfg %+v script %v", how, stop, last, res, err, c, script), cs)
		return
	}
	if stop > 1 || how != "pass" {
		if part == "A" {
			rep.Count("A_nontrivial", 1)
		}
		rep.Distinct(fmt.Sprintf("%d|%v|%v|%v|%v|%s|%s", c.MaxRetries, c.Handle, c.Abort, c.ReturnLast, script[:min(stop, len(script))], how, part))
		if rep.WantSample() && stop >= 3 {
			rep.Sample(map[string]any{"cfg": c, "script": fmt.Sprint(script), "invocations": stop, "ending": how})
		}
	}
}

func retryMaxDuration(rep *vk.Report, idx int) {
	r := vk.Rng(rep.Seed, "C02D", idx)
	c := retryCfg{MaxRetries: vk.Pick(r, 2, 5, -1), ReturnLast: r.IntN(2) == 0, MaxDuration: vk.Pick(r, int64(2e6), 20e6)}
	n := 3 + r.IntN(5)
	var script []step
	for i := 0; i < n; i++ {
		script = append(script, step{Err: 1, Busy: int64(vk.Pick(r, 0.0, 0.0, 0.3, 0.6, 1.2) * float64(c.MaxDuration))})
	}
	ex := failsafe.NewExecutor[int](buildRetry(c).Build())
	calls := 0
	overAt := -1 // first invocation that sampled elapsed > maxDuration just before returning
	t0 := time.Now()
	res, err := ex.GetWithExecution(func(exec failsafe.Execution[int]) (int, error) {
		i := calls
		calls++
		if i >= len(script) {
			return 5, nil
		}
		if script[i].Busy > 0 {
			time.Sleep(time.Duration(script[i].Busy))
		}
		if overAt < 0 && time.Since(exec.StartTime()) > time.Duration(c.MaxDuration) {
			overAt = calls
		}
		return 0, errE1
	})
	rep.Eval()
	cs := map[string]any{"cfg": c, "script": fmt.Sprint(script)}
	if overAt > 0 {
		rep.Count("D_failures_after_max_duration", 1)
		if calls > overAt {
			rep.Violate(idx, "C02/retried-after-max-duration", fmt.Sprintf("invocation %d failed with elapsed > maxDuration %v but the function was invoked %d times; cfg %+v", overAt, time.Duration(c.MaxDuration), calls, c), cs)
			return
		}
		var xe retrypolicy.ExceededError
		if c.ReturnLast && err != errE1 || !c.ReturnLast && !(errors.As(err, &xe) && xe.LastError == errE1) {
			rep.Violate(idx, "C02/final-result/D", fmt.Sprintf("gave up after max duration: caller got (%d,%v); cfg %+v", res, err, c), cs)
			return
		}
		rep.Distinct(fmt.Sprintf("D|%d|%v|%d|%d", c.MaxRetries, c.ReturnLast, c.MaxDuration, overAt))
	} else if calls <= len(script) && (c.MaxRetries == -1 || calls < c.MaxRetries+1) {
		// gave up without exhausting the retries and without a sampled overrun: only legitimate once the max duration has
		// elapsed; the caller's clock started before the execution's, so this is a sound lower bound
		rep.Count("D_stopped_early", 1)
		if el := time.Since(t0); el < time.Duration(c.MaxDuration) {
			rep.Violate(idx, "C02/gave-up-before-max-duration", fmt.Sprintf("gave up after %d of %d allowed invocations only %v after the call began (max duration %v); cfg %+v", calls, c.MaxRetries+1, el, time.Duration(c.MaxDuration), c), cs)
		}
	}
}

// c02Deep: the stopping rule with result conditions on a pointer-bearing result type. HandleResult and AbortOnResult are
// documented as reflect.DeepEqual: separately allocated equal values must be retried / must abort.
func c02Deep(rep *vk.Report, idx int) {
	r := vk.Rng(rep.Seed, "C02deep", idx)
	mk := func(n int) *box { return &box{N: n, Tags: []string{"x"}, Next: &box{N: n}} }
	maxRetries := 1 + r.IntN(4)
	// script: k deep-equal "bad" results, then either an abort value or a good one
	k := r.IntN(maxRetries + 2)
	endsWithAbort := r.IntN(2) == 0
	rp := retrypolicy.Builder[*box]().WithMaxRetries(maxRetries).HandleResult(mk(7)).AbortOnResult(mk(9)).ReturnLastFailure().
		HandleIf(func(b *box, _ error) bool { return b != nil && b.N == 9 }).Build()
	calls := 0
	res, err := failsafe.Get(func() (*box, error) {
		calls++
		switch {
		case calls <= k:
			return mk(7), nil // a fresh allocation each time
		case endsWithAbort:
			return mk(9), nil
		}
		return mk(1), nil
	}, rp)
	rep.Eval()
	want := min(k, maxRetries+1)
	if k <= maxRetries {
		want = k + 1
	}
	final := 7
	if k <= maxRetries {
		final = 1
		if endsWithAbort {
			final = 9
		}
	}
	if calls != want || err != nil || res == nil || res.N != final {
		got := -1
		if res != nil {
			got = res.N
		}
		rep.Violate(idx, "C02/deep-equal-result-conditions", fmt.Sprintf("retry(maxRetries=%d, HandleResult(&box{7}), AbortOnResult(&box{9}), ReturnLastFailure) with %d separately allocated &box{7} results then %s: function invoked %d times (rule %d), returned box %d err %v (rule box %d)", maxRetries, k, map[bool]string{true: "&box{9}", false: "&box{1}"}[endsWithAbort], calls, want, got, err, final), map[string]any{"max_retries": maxRetries, "bad_results": k, "abort": endsWithAbort})
		return
	}
	rep.Distinct(fmt.Sprintf("deep|%d|%d|%v", maxRetries, k, endsWithAbort))
}
