package checks

import (
	"fmt"
	"sync/atomic"
	"time"

	"github.com/failsafe-go/failsafe-go"
	"github.com/failsafe-go/failsafe-go/hedgepolicy"
	"github.com/failsafe-go/failsafe-go/retrypolicy"

	"verifharness/vk"
)

// c02HedgedBudget: Hedge(Retry(fn)) with a slow first attempt and hedged attempts that fail at once. All hedged branches
// run the same retry policy within ONE execution, so together they may re-invoke the function at most maxRetries times:
// no more than (maxHedges+1) first invocations plus maxRetries re-invocations in total, and the done event reports at
// most maxRetries retries - however long the slow attempt keeps the execution open.
func c02HedgedBudget(rep *vk.Report, idx int) {
	r := vk.Rng(rep.Seed, "C02h", idx)
	maxHedges := 1 + r.IntN(2)
	maxRetries := r.IntN(4)
	slow := time.Duration(10+r.IntN(30)) * time.Millisecond
	slowOK := r.IntN(2) == 0
	var calls, onRetry atomic.Int64
	rp := retrypolicy.Builder[int]().WithMaxRetries(maxRetries).OnRetry(func(failsafe.ExecutionEvent[int]) { onRetry.Add(1) }).Build()
	hp := hedgepolicy.BuilderWithDelay[int](time.Millisecond).WithMaxHedges(maxHedges).CancelIf(func(_ int, err error) bool { return err == nil }).Build()
	var dRetries int
	ex := failsafe.NewExecutor[int](hp, rp).OnDone(func(e failsafe.ExecutionDoneEvent[int]) { dRetries = e.Retries() })
	fn := func(exec failsafe.Execution[int]) (int, error) {
		if calls.Add(1) == 1 {
			select {
			case <-time.After(slow):
			case <-exec.Canceled():
			}
			if slowOK {
				return 1, nil
			}
		}
		return 0, errE1
	}
	var err error
	if r.IntN(3) == 0 {
		_, err = ex.GetWithExecutionAsync(fn).Get()
	} else {
		_, err = ex.GetWithExecution(fn)
	}
	time.Sleep(2 * time.Millisecond) // abandoned attempts return at once when cancelled
	rep.Eval()
	cs := map[string]any{"max_hedges": maxHedges, "max_retries": maxRetries, "slow_ns": int64(slow), "slow_succeeds": slowOK}
	if c := int(calls.Load()); c > maxHedges+1+maxRetries || dRetries > maxRetries || int(onRetry.Load()) > maxRetries {
		rep.Violate(idx, "C02/budget-exceeded-under-hedge", fmt.Sprintf("Hedge(maxHedges %d)(Retry(maxRetries %d)(fn)) with a first attempt lasting %v and hedged attempts failing at once: function invoked %d times (at most %d first invocations + %d retries), done event reports %d retries, OnRetry fired %d times; result error %v", maxHedges, maxRetries, slow, c, maxHedges+1, maxRetries, dRetries, onRetry.Load(), err), cs)
		return
	}
	if onRetry.Load() > 0 {
		rep.Count("hedged_retry_budget_rounds", 1)
		rep.Distinct(fmt.Sprintf("hbudget|%d|%d|%v|%d", maxHedges, maxRetries, slowOK, onRetry.Load()))
	}
}
