package checks

import (
	"errors"
	"fmt"
	"math"
	"math/rand/v2"
	"sort"
	"strings"
	"time"

	"github.com/failsafe-go/failsafe-go"
	"github.com/failsafe-go/failsafe-go/circuitbreaker"

	"verifharness/model"
	"verifharness/vk"
)

func init() { register("C03", checkC03) }

var errE1 = errors.New("E1")
var errE2 = errors.New("E2")

// brkCase is one generated breaker configuration.
type brkCase struct {
	Cfg        model.BreakerCfg `json:"cfg"`
	DelayFn    []int64          `json:"delay_fn,omitempty"` // successive delay function values (-1 = defer to fixed delay)
	HandleRes7 bool             `json:"handle_result_7"`
	Listeners  string           `json:"listeners"` // subset of "g" generic, "o","h","c" specific
	Ops        []string         `json:"ops"`
}

func genBreakerCfg(r *rand.Rand) model.BreakerCfg {
	c := model.BreakerCfg{FailThreshold: 1, FailCapacity: 1}
	periods := []int64{10, 100, 1000, 1e9, 60e9}
	switch r.IntN(4) {
	case 0:
		c.Kind = "count"
		n := uint(1 + r.IntN(5))
		c.FailThreshold, c.FailCapacity = n, n
	case 1:
		c.Kind = "ratio"
		n := uint(1 + r.IntN(6))
		k := uint(1 + r.IntN(int(n)))
		c.FailThreshold, c.FailCapacity = k, n
	case 2:
		c.Kind = "period-count"
		k := uint(1 + r.IntN(4))
		c.FailThreshold, c.FailCapacity, c.ExecThreshold = k, k, k
		c.Period = vk.Pick(r, periods...)
	case 3:
		c.Kind = "period-rate"
		c.RateThreshold = vk.Pick(r, uint(1), 13, 20, 33, 34, 50, 67, 99, 100)
		c.ExecThreshold = uint(1 + r.IntN(5))
		c.Period = vk.Pick(r, periods...)
	}
	switch r.IntN(3) {
	case 1:
		c.SuccKind = "count"
		n := uint(1 + r.IntN(3))
		c.SuccThreshold, c.SuccCapacity = n, n
	case 2:
		c.SuccKind = "ratio"
		n := uint(1 + r.IntN(4))
		k := uint(1 + r.IntN(int(n)))
		c.SuccThreshold, c.SuccCapacity = k, n
	}
	c.Delay = vk.Pick(r, int64(0), 1, 50, 1000, 7777, 60e9, math.MaxInt64) // MaxInt64: 'stay open until closed by hand'
	return c
}

// buildBreaker builds the real breaker for a model configuration with a virtual clock.
func buildBreaker(c model.BreakerCfg, now func() int64) circuitbreaker.CircuitBreakerBuilder[int] {
	b := circuitbreaker.Builder[int]()
	switch c.Kind {
	case "count":
		b.WithFailureThreshold(c.FailThreshold)
	case "ratio":
		b.WithFailureThresholdRatio(c.FailThreshold, c.FailCapacity)
	case "period-count":
		b.WithFailureThresholdPeriod(c.FailThreshold, time.Duration(c.Period))
	case "period-rate":
		b.WithFailureRateThreshold(c.RateThreshold, c.ExecThreshold, time.Duration(c.Period))
	}
	switch c.SuccKind {
	case "count":
		b.WithSuccessThreshold(c.SuccThreshold)
	case "ratio":
		b.WithSuccessThresholdRatio(c.SuccThreshold, c.SuccCapacity)
	}
	b.WithDelay(time.Duration(c.Delay))
	return circuitbreaker.VerifWithClock(b, now)
}

type brkEvent struct {
	Which    string
	Old, New int
	M        model.Metrics
}

func metricsOf(m circuitbreaker.Metrics) model.Metrics {
	return model.Metrics{Execs: m.Executions(), Fails: m.Failures(), Succs: m.Successes(), FailRate: m.FailureRate(), SuccRate: m.SuccessRate()}
}

func checkC03(rep *vk.Report) {
	n := scale(rep, 6000, 600000)
	rep.Rule = "random breaker configuration (count, ratio, period-count, period-rate x success none/count/ratio x fixed delay/delay function x listener subset) and a history of 20-80 operations over Record*/TryAcquirePermit/Open/HalfOpen/Close/executions/clock advances with boundary-biased advances; after every operation State/Is*, RemainingDelay, Metrics and emitted events are compared with the reference machine. Non-trivial: the history visited >=2 states and contained >=1 boundary-exact advance; distinct by (config kind, success kind, state-visit sequence, boundary kinds hit)."
	rep.Assumptions = []string{
		"virtual clock installed through circuitbreaker.VerifWithClock (verif build tag)",
		"A2: metrics are not judged after a result was recorded while open, until the next state change",
		"A3: time based windows are set-valued between the most recent 9/10 of the period and the full period; a reported or thresholded rate within 1 point of a non-integral exact rate may round either way",
		"A4: half-open admission is not judged after a record without a permit in the same half-open episode",
		"thresholding periods are multiples of 10ns",
	}
	vk.Parallel(n, 16, func(idx int) {
		if rep.Skip(idx) {
			return
		}
		runBreakerHistory(rep, idx, "C03")
	})
	rep.Require("boundary_advances", 10)
	rep.Require("histories_with_2plus_states", 10)
}

// runBreakerHistory drives one generated breaker history. prop selects the reporting property: C03 judges everything,
// C16 only the emitted events (the other observations are C03's subject).
func runBreakerHistory(rep *vk.Report, idx int, prop string) {
	r := vk.Rng(rep.Seed, prop+"-brk", idx)
	cs := brkCase{Cfg: genBreakerCfg(r)}
	cs.HandleRes7 = r.IntN(2) == 0
	cs.Listeners = vk.Pick(r, "gohc", "gohc", "g", "ohc", "", "o", "gh", "gc", "go", "hc")
	if r.IntN(3) == 0 {
		for i := 0; i < 6; i++ {
			cs.DelayFn = append(cs.DelayFn, vk.Pick(r, int64(-1), 0, 3, 500, 123456))
		}
	}
	var now int64 = vk.Pick(r, int64(0), 5, 1e9, 1700000000e9)
	m := model.NewBreaker(cs.Cfg)
	m.Now = now
	bb := buildBreaker(cs.Cfg, func() int64 { return now })
	if cs.HandleRes7 {
		bb.HandleResult(7)
	}
	var events []brkEvent
	lis := func(which string) func(e circuitbreaker.StateChangedEvent) {
		return func(e circuitbreaker.StateChangedEvent) {
			events = append(events, brkEvent{which, int(e.OldState), int(e.NewState), metricsOf(e.Metrics())})
		}
	}
	if strings.Contains(cs.Listeners, "g") {
		bb.OnStateChanged(lis("g"))
	}
	if strings.Contains(cs.Listeners, "o") {
		bb.OnOpen(lis("o"))
	}
	if strings.Contains(cs.Listeners, "h") {
		bb.OnHalfOpen(lis("h"))
	}
	if strings.Contains(cs.Listeners, "c") {
		bb.OnClose(lis("c"))
	}
	delayCalls := 0
	var delaySawErr error
	if cs.DelayFn != nil {
		bb.WithDelayFunc(func(exec failsafe.ExecutionAttempt[int]) time.Duration {
			v := cs.DelayFn[delayCalls%len(cs.DelayFn)]
			delayCalls++
			delaySawErr = exec.LastError()
			return time.Duration(v)
		})
	}
	cb := bb.Build()
	ex := failsafe.NewExecutor[int](cb)

	slice := cs.Cfg.Period / 10
	visited := []int{model.Closed}
	bounds := map[string]bool{}
	modelDelayCalls := 0
	fail := func(cat, msg string) {
		if prop != "C03" && cat != "events" {
			return
		}
		rep.Violate(idx, prop+"/breaker-"+cat+"/"+cs.Cfg.Kind, fmt.Sprintf("%s (op #%d %q; cfg %+v succ=%s listeners=%q)", msg, len(cs.Ops), cs.Ops[len(cs.Ops)-1], cs.Cfg, cs.Cfg.SuccKind, cs.Listeners), cs)
	}
	nops := 20 + r.IntN(61)
	bad := false
	for i := 0; i < nops && !bad; i++ {
		events = events[:0]
		m.Events = nil
		nextDelay := func() int64 {
			if cs.DelayFn != nil {
				if v := cs.DelayFn[modelDelayCalls%len(cs.DelayFn)]; v != -1 {
					return v
				}
			}
			return cs.Cfg.Delay
		}
		op := r.IntN(100)
		if m.State == model.Open && op < 38 && r.IntN(4) != 0 {
			op = 38 + r.IntN(62) // results recorded while open make the metrics unjudged (A2): keep them rare
		}
		var mism string
		switch {
		case op < 14:
			cs.Ops = append(cs.Ops, "RecordFailure")
			cb.RecordFailure()
			mism = m.Record(true, cs.Cfg.Delay, int(cb.State()))
		case op < 26:
			cs.Ops = append(cs.Ops, "RecordSuccess")
			cb.RecordSuccess()
			mism = m.Record(false, cs.Cfg.Delay, int(cb.State()))
		case op < 32:
			v := vk.Pick(r, 7, 7, 1, 0)
			cs.Ops = append(cs.Ops, fmt.Sprintf("RecordResult(%d)", v))
			cb.RecordResult(v)
			mism = m.Record(cs.HandleRes7 && v == 7, cs.Cfg.Delay, int(cb.State()))
		case op < 38:
			e := vk.Pick(r, error(nil), errE1, errE1)
			cs.Ops = append(cs.Ops, fmt.Sprintf("RecordError(%v)", e))
			cb.RecordError(e)
			mism = m.Record(e != nil, cs.Cfg.Delay, int(cb.State()))
		case op < 52:
			cs.Ops = append(cs.Ops, "TryAcquirePermit")
			got := cb.TryAcquirePermit()
			o := 0
			if got {
				o = 1
			}
			_, mism = m.TryAcquire(o)
		case op < 66:
			wantFail := r.IntN(2) == 0
			cs.Ops = append(cs.Ops, fmt.Sprintf("Exec(fail=%v)", wantFail))
			invoked := 0
			myErr := fmt.Errorf("fail#%d: %w", i, errE1)
			delaySawErr = nil
			before := delayCalls
			res, err := ex.Get(func() (int, error) {
				invoked++
				if wantFail {
					return 0, myErr
				}
				return 1000 + i, nil
			})
			// the executor first asks for a permit ...
			admitted, _ := m.TryAcquire(-1)
			evAfterAcquire := len(m.Events)
			switch {
			case !admitted:
				if invoked != 0 || !errors.Is(err, circuitbreaker.ErrOpen) {
					mism = fmt.Sprintf("execution through a breaker the model refuses: invoked=%d err=%v", invoked, err)
				}
			case invoked != 1:
				mism = fmt.Sprintf("execution admitted by the model: function invoked %d times, err=%v", invoked, err)
			default:
				d := cs.Cfg.Delay // a success that re-opens a half-open breaker carries no execution: fixed delay
				if wantFail {
					d = nextDelay()
				}
				mism = m.Record(wantFail, d, int(cb.State()))
				if wantFail && err != myErr || !wantFail && (err != nil || res != 1000+i) {
					mism = fmt.Sprintf("execution result not passed through: res=%d err=%v", res, err)
				}
				opened := false
				for _, e := range m.Events[evAfterAcquire:] {
					if e.New == model.Open {
						opened = true
					}
				}
				if cs.DelayFn != nil {
					if opened && wantFail {
						modelDelayCalls++
						if mism == "" && delayCalls == before+1 && delaySawErr != myErr {
							mism = fmt.Sprintf("delay function saw LastError=%v, want the failure that opened the breaker", delaySawErr)
						}
					}
					if mism == "" && delayCalls != modelDelayCalls {
						mism = fmt.Sprintf("delay function called %d times in total, model %d", delayCalls, modelDelayCalls)
					}
				}
			}
		case op < 70:
			cs.Ops = append(cs.Ops, "Open")
			cb.Open()
			m.ManualOpen()
		case op < 74:
			cs.Ops = append(cs.Ops, "HalfOpen")
			cb.HalfOpen()
			m.ManualHalfOpen()
		case op < 78:
			cs.Ops = append(cs.Ops, "Close")
			cb.Close()
			m.ManualClose()
		default:
			rem := m.RemainingDelay()
			type adv struct {
				dt   int64
				kind string
			}
			cands := []adv{{0, ""}, {1, ""}, {int64(r.IntN(2000)), ""}}
			if rem > 0 && rem < 1e15 { // a 'forever' delay is never advanced to: the virtual clock must not overflow
				cands = append(cands, adv{rem - 1, "delay-1"}, adv{rem, "delay"}, adv{rem + 1, "delay+1"}, adv{rem, "delay"})
			}
			if slice > 0 {
				toB := slice - now%slice
				cands = append(cands, adv{toB, "slice-edge"}, adv{toB - 1, "slice-edge-1"}, adv{slice, "slice"}, adv{slice - 1, "slice-1"}, adv{slice + 1, "slice+1"},
					adv{9*slice - 1, "9slices-1"}, adv{9 * slice, "9slices"}, adv{9*slice + 1, "9slices+1"},
					adv{cs.Cfg.Period - 1, "period-1"}, adv{cs.Cfg.Period, "period"}, adv{cs.Cfg.Period + 1, "period+1"}, adv{3 * cs.Cfg.Period, "3periods"},
					adv{r.Int64N(2*cs.Cfg.Period + 1), ""})
			}
			a := cands[r.IntN(len(cands))]
			if a.dt < 0 {
				a.dt = 0
			}
			cs.Ops = append(cs.Ops, fmt.Sprintf("Advance(%d)", a.dt))
			now += a.dt
			m.Now = now
			if a.kind != "" {
				bounds[a.kind] = true
				rep.Count("boundary_advances", 1)
			}
		}
		rep.Count("operations", 1)
		if mism != "" {
			cat := "state"
			if strings.HasPrefix(mism, "TryAcquire") {
				cat = "permit"
			} else if strings.HasPrefix(mism, "execution") || strings.HasPrefix(mism, "delay function") {
				cat = "exec"
			}
			fail(cat, mism)
			bad = true
			break
		}
		// observers
		st := int(cb.State())
		if st != m.State {
			fail("state", fmt.Sprintf("State()=%s, model %s", model.StateName(st), model.StateName(m.State)))
			bad = true
			break
		}
		if cb.IsOpen() != (st == model.Open) || cb.IsClosed() != (st == model.Closed) || cb.IsHalfOpen() != (st == model.HalfOpen) {
			fail("state", "IsOpen/IsClosed/IsHalfOpen disagree with State()")
			bad = true
			break
		}
		if got, want := int64(cb.RemainingDelay()), m.RemainingDelay(); got != want {
			fail("delay", fmt.Sprintf("RemainingDelay()=%d, model %d in state %s", got, want, model.StateName(st)))
			bad = true
			break
		}
		if alts, judged := m.MetricsAlts(); judged {
			got := metricsOf(cb.Metrics())
			if !model.MetricsMatch(alts, got) {
				fail("metrics", fmt.Sprintf("Metrics()=%+v not among admissible windows %v in state %s", got, alts, model.StateName(st)))
				bad = true
				break
			}
			rep.Count("metrics_judged", 1)
		} else {
			rep.Count("metrics_unjudged_A2", 1)
		}
		// events: specific listener first, then the generic one, per model transition
		var want []string
		var wantAlts [][]model.MetricsAlt
		var wantJudged []bool
		for _, e := range m.Events {
			sp := map[int]string{model.Open: "o", model.HalfOpen: "h", model.Closed: "c"}[e.New]
			for _, w := range []string{sp, "g"} {
				if strings.Contains(cs.Listeners, w) {
					want = append(want, fmt.Sprintf("%s:%d>%d", w, e.Old, e.New))
					wantAlts = append(wantAlts, e.Alts)
					wantJudged = append(wantJudged, e.Judged)
				}
			}
			if visited[len(visited)-1] != e.New && len(visited) < 10 {
				visited = append(visited, e.New)
			}
		}
		var got []string
		for _, e := range events {
			got = append(got, fmt.Sprintf("%s:%d>%d", e.Which, e.Old, e.New))
		}
		if strings.Join(got, ",") != strings.Join(want, ",") {
			fail("events", fmt.Sprintf("events %v, model %v", got, want))
			bad = true
			break
		}
		for k, e := range events {
			if wantJudged[k] && !model.MetricsMatch(wantAlts[k], e.M) {
				fail("events", fmt.Sprintf("event %s carries metrics %+v, admissible for the old state: %v", got[k], e.M, wantAlts[k]))
				bad = true
				break
			}
		}
		rep.Count("events_checked", int64(len(events)))
	}
	rep.Eval()
	if prop != "C03" {
		rep.Count("breaker_histories_events_checked", 1)
		if len(visited) >= 2 {
			rep.Distinct(fmt.Sprintf("brk|%s|%s|%v|%s", cs.Cfg.Kind, cs.Cfg.SuccKind, visited, cs.Listeners))
		}
		return
	}
	rep.Count("ambiguous_decisions_resolved_from_observation", int64(m.Ambiguous))
	if len(visited) >= 2 {
		rep.Count("histories_with_2plus_states", 1)
	}
	if len(visited) >= 2 && len(bounds) > 0 {
		bk := make([]string, 0, len(bounds))
		for k := range bounds {
			bk = append(bk, k)
		}
		sort.Strings(bk)
		rep.Distinct(fmt.Sprintf("%s|%s|%v|%v|%v", cs.Cfg.Kind, cs.Cfg.SuccKind, visited, bk, cs.DelayFn != nil))
		if rep.WantSample() {
			rep.Sample(cs)
		}
	}
}
