package checks

import (
	"context"
	"errors"
	"fmt"
	"sort"
	"sync"
	"sync/atomic"
	"time"

	"github.com/anishathalye/porcupine"
	"github.com/failsafe-go/failsafe-go"
	"github.com/failsafe-go/failsafe-go/bulkhead"
	"github.com/failsafe-go/failsafe-go/circuitbreaker"
	"github.com/failsafe-go/failsafe-go/fallback"
	"github.com/failsafe-go/failsafe-go/retrypolicy"
	"github.com/failsafe-go/failsafe-go/timeout"

	"verifharness/model"
	"verifharness/vk"
)

func init() { register("C04", checkC04) }

type c04Case struct {
	Cfg     model.BreakerCfg `json:"cfg"`
	Comp    string           `json:"composition"` // cb | retry(cb) | timeout(cb) | cb(timeout) | fallback(cb)
	Workers int              `json:"workers"`
	Async   bool             `json:"async"`
	// DelayFunc: the breaker gets a delay function (returning the configured delay); ManualOpen: it is opened without an
	// execution (Open() or standalone RecordFailure) while executions keep arriving
	DelayFunc  bool `json:"delay_func"`
	ManualOpen bool `json:"manual_open"`
}

type c04Exec struct {
	call, enter, exit, ret int64
	res                    int
	err                    error
	worker                 int
}

// c04Round is one fresh breaker with its recorded timeline.
type c04Round struct {
	cs         c04Case
	seq        atomic.Int64
	clock      atomic.Int64
	delayCalls atomic.Int64
	mu         sync.Mutex
	trans      []struct {
		seq   int64
		state int
	} // state transitions as seen by the listeners (under the breaker's lock)
	execs []*c04Exec
	cb    circuitbreaker.CircuitBreaker[int]
	pols  []failsafe.Policy[int]
}

func newC04Round(cs c04Case) *c04Round {
	rd := &c04Round{cs: cs}
	b := buildBreaker(cs.Cfg, func() int64 { return rd.clock.Load() })
	if cs.DelayFunc {
		// the first opening gets the configured delay, every later one (a re-open from half-open) seven times as much
		b.WithDelayFunc(func(failsafe.ExecutionAttempt[int]) time.Duration {
			if rd.delayCalls.Add(1) == 1 {
				return time.Duration(cs.Cfg.Delay)
			}
			return 7 * time.Duration(cs.Cfg.Delay)
		})
	}
	b.OnStateChanged(func(e circuitbreaker.StateChangedEvent) {
		s := rd.seq.Add(1)
		rd.mu.Lock()
		rd.trans = append(rd.trans, struct {
			seq   int64
			state int
		}{s, int(e.NewState)})
		rd.mu.Unlock()
	})
	rd.cb = b.Build()
	switch cs.Comp {
	case "cb":
		rd.pols = []failsafe.Policy[int]{rd.cb}
	case "retry(cb)":
		rd.pols = []failsafe.Policy[int]{retrypolicy.Builder[int]().WithMaxRetries(1).Build(), rd.cb}
	case "timeout(cb)":
		rd.pols = []failsafe.Policy[int]{timeout.With[int](30 * time.Millisecond), rd.cb}
	case "cb(timeout)":
		rd.pols = []failsafe.Policy[int]{rd.cb, timeout.With[int](30 * time.Millisecond)}
	case "fallback(cb)":
		rd.pols = []failsafe.Policy[int]{fallback.WithResult[int](-1), rd.cb}
	case "cb(bhfull)":
		// inside the breaker a bulkhead that is always full: every admitted execution is shed with ErrFull before it reaches
		// the function - a failure like any other, which must be recorded and give its half-open permit back
		bh := bulkhead.With[int](1)
		bh.TryAcquirePermit()
		rd.pols = []failsafe.Policy[int]{rd.cb, bh}
	}
	return rd
}

// exec runs one execution through the round's composition; behaviour decides what the function does.
// behaviour: "ok", "fail", "gate-ok", "gate-fail" (wait for gate first), "block" (until cancelled, then fail).
func (rd *c04Round) exec(worker int, behaviour string, gate <-chan struct{}, ctx context.Context) *c04Exec {
	x := &c04Exec{worker: worker}
	ex := failsafe.NewExecutor[int](rd.pols...)
	if ctx != nil {
		ex = ex.WithContext(ctx)
	}
	fn := func(exec failsafe.Execution[int]) (int, error) {
		if x.enter == 0 {
			x.enter = rd.seq.Add(1)
		}
		defer func() { x.exit = rd.seq.Add(1) }()
		// a cancelled function returns either its own error or, as I/O code does, the context's error
		cancelErr := func() error {
			if x.call%2 == 0 {
				return exec.Context().Err()
			}
			return errE2
		}
		switch behaviour {
		case "gate-ok", "gate-fail":
			select {
			case <-gate:
			case <-exec.Canceled():
				return 0, cancelErr()
			}
		case "block":
			<-exec.Canceled()
			return 0, cancelErr()
		}
		if behaviour == "fail" || behaviour == "gate-fail" {
			return 0, errE1
		}
		return 1, nil
	}
	x.call = rd.seq.Add(1)
	if rd.cs.Async {
		x.res, x.err = ex.GetWithExecutionAsync(fn).Get()
	} else {
		x.res, x.err = ex.GetWithExecution(fn)
	}
	x.ret = rd.seq.Add(1)
	rd.mu.Lock()
	rd.execs = append(rd.execs, x)
	rd.mu.Unlock()
	return x
}

// stateAt returns the breaker state per the listener timeline just before sequence number s.
func (rd *c04Round) stateAt(s int64) int {
	st := model.Closed
	for _, t := range rd.trans {
		if t.seq < s {
			st = t.state
		}
	}
	return st
}

func (rd *c04Round) transitionsBetween(a, b int64) int {
	n := 0
	for _, t := range rd.trans {
		if t.seq > a && t.seq < b {
			n++
		}
	}
	return n
}

func refusedOutcome(comp string, x *c04Exec) bool {
	if comp == "fallback(cb)" {
		return x.res == -1 && x.err == nil
	}
	if comp == "timeout(cb)" && errors.Is(x.err, timeout.ErrExceeded) {
		return true // on a stalled machine the outer 30ms Timeout may expire before the refusal travels back
	}
	return errors.Is(x.err, circuitbreaker.ErrOpen)
}

func checkC04(rep *vk.Report) {
	rep.Rule = "round = fresh count-, ratio- or time-based breaker (with and without a success threshold, execution threshold above and below the success capacity) on a virtual clock behind one of {cb, retry(cb), timeout(cb), cb(timeout), fallback(cb)}, sync or async. Phase 1: 8-32 goroutines race failing/succeeding executions until OnOpen and keep arriving after it with the clock frozen: every execution whose call event follows the OnOpen event (taken inside the listener, under the breaker's lock) with no later transition must not enter the function and must end in the ErrOpen-derived outcome. Phase 2 (after a barrier): the clock jumps to the delay, callers block inside the function on a gate, outcomes success/failure/context-cancelled/timed-out are released in random order: executions admitted within one half-open episode never overlap more than the trial capacity; after quiescence in a still undecided half-open state exactly capacity TryAcquirePermit probes succeed. Phase 3: when the trials re-opened the breaker and a delay function is configured (it asks for 7x the delay from its second call on), RemainingDelay reports that delay and an execution after the fixed delay is still refused. Plus concurrent standalone histories (TryAcquirePermit/Record*/State/Open/HalfOpen/Close/Advance) checked with porcupine against the C03 machine. Non-trivial: a round with >=1 execution in flight across the opening and >=1 refused after it, or a half-open phase with more callers than capacity; distinct by (config, composition, workers, async, in-flight-across-opening, max half-open overlap)."
	rep.Assumptions = []string{
		"ordering argument: the OnStateChanged listener runs under the breaker's lock after the state was replaced, admission takes the same lock after the caller's call event",
		"half-open bound is only claimed when no execution admitted before the opening is still in flight (barrier between the phases)",
		"porcupine histories use count based configurations so the sequential specification is deterministic (A4 episodes follow the observation)",
	}
	rounds := scale(rep, 300, 12000)
	vk.Parallel(rounds, 8, func(idx int) {
		if rep.Skip(idx) {
			return
		}
		c04RunRound(rep, idx)
	})
	nh := scale(rep, 2000, 100000)
	vk.Parallel(nh, 16, func(i int) {
		idx := rounds + i
		if rep.Skip(idx) {
			return
		}
		c04Porcupine(rep, idx)
	})
	rep.Require("executions_in_flight_across_opening", 20)
	rep.Require("executions_refused_after_opening", 100)
	rep.Require("halfopen_rounds_with_more_callers_than_capacity", 20)
	rep.Require("halfopen_conservation_probes", 20)
	rep.Require("porcupine_histories_ok", 100)
}

func c04RunRound(rep *vk.Report, idx int) {
	r := vk.Rng(rep.Seed, "C04", idx)
	thr := uint(1 + r.IntN(5))
	cfg := model.BreakerCfg{Kind: "count", FailThreshold: thr, FailCapacity: thr, Delay: 1000}
	if r.IntN(2) == 0 {
		n := thr + uint(r.IntN(3))
		cfg.Kind, cfg.FailCapacity = "ratio", n
	}
	// success ratio 1 of cap: undecided until a success arrives or all but... failures > cap-1 re-opens
	capTrial := uint(1 + r.IntN(4))
	cfg.SuccKind, cfg.SuccThreshold, cfg.SuccCapacity = "ratio", 1, capTrial
	if r.IntN(3) == 0 { // no success config: capacity comes from the failure capacity
		cfg.SuccKind, cfg.SuccThreshold, cfg.SuccCapacity = "", 0, 0
		capTrial = cfg.FailCapacity
	}
	// time based breakers (period far longer than any clock jump, so nothing ages out): the trial capacity is the success
	// capacity when one is configured, whatever the execution threshold is; else the execution threshold
	switch r.IntN(5) {
	case 0:
		cfg.Kind, cfg.FailCapacity, cfg.ExecThreshold, cfg.Period = "period-count", thr, thr, 3600e9
		if cfg.SuccKind == "" {
			capTrial = thr
		}
	case 1:
		cfg.Kind, cfg.FailThreshold, cfg.FailCapacity, cfg.Period = "period-rate", 0, 0, 3600e9
		cfg.RateThreshold, cfg.ExecThreshold = vk.Pick(r, uint(20), 34, 50), uint(1+r.IntN(6))
		if cfg.SuccKind == "" {
			capTrial = uint(1 + r.IntN(4))
			cfg.SuccKind, cfg.SuccThreshold, cfg.SuccCapacity = "ratio", 1, capTrial
		}
	}
	cs := c04Case{Cfg: cfg, Comp: vk.Pick(r, "cb", "cb", "retry(cb)", "timeout(cb)", "cb(timeout)", "fallback(cb)", "cb(bhfull)"), Workers: 8 + r.IntN(25), Async: r.IntN(3) == 0,
		DelayFunc: r.IntN(2) == 0, ManualOpen: r.IntN(4) == 0}
	rd := newC04Round(cs)
	rep.Eval()
	viol := func(sig, msg string) {
		rep.Violate(idx, "C04/"+sig, msg+fmt.Sprintf(" (case %+v)", cs), cs)
	}

	// ---- phase 1: race towards the opening, keep arriving afterwards (clock frozen: stays open)
	var wg sync.WaitGroup
	var opened atomic.Bool
	for w := 0; w < cs.Workers; w++ {
		wr := vk.Rng(rep.Seed, "C04w", idx*100+w)
		wg.Add(1)
		go func(w int) {
			defer wg.Done()
			after := 0
			for i := 0; i < 400 && after < 6; i++ {
				if cs.ManualOpen && w == 0 && i == 2 {
					if wr.IntN(2) == 0 {
						rd.cb.Open()
					} else {
						for k := uint(0); k < max(cs.Cfg.FailCapacity, cs.Cfg.ExecThreshold); k++ {
							rd.cb.RecordFailure()
						}
					}
				}
				beh := "fail"
				if wr.IntN(3) == 0 {
					beh = "ok"
				}
				rd.exec(w, beh, nil, nil)
				if rd.cb.IsOpen() {
					opened.Store(true)
					after++
				}
			}
		}(w)
	}
	wg.Wait()
	if !opened.Load() {
		rep.Count("rounds_never_opened", 1)
		return
	}
	var openSeq int64 = -1
	for _, t := range rd.trans {
		if t.state == model.Open {
			openSeq = t.seq
			break
		}
	}
	across, refused := 0, 0
	for _, x := range rd.execs {
		if x.call < openSeq && x.ret > openSeq {
			across++
		}
		if x.call > openSeq && rd.transitionsBetween(openSeq, x.ret) == 0 {
			if x.enter != 0 || !refusedOutcome(cs.Comp, x) {
				viol("admitted-while-open", fmt.Sprintf("execution called at #%d after the breaker opened at #%d (no later transition): entered function=%v, result=(%d,%v)", x.call, openSeq, x.enter != 0, x.res, x.err))
				return
			}
			refused++
		}
	}
	rep.Count("executions_in_flight_across_opening", int64(across))
	rep.Count("executions_refused_after_opening", int64(refused))
	rep.Count("phase1_executions", int64(len(rd.execs)))
	if len(rd.trans) != 1 {
		viol("unexpected-transition", fmt.Sprintf("phase 1 with a frozen clock saw transitions %v", rd.trans))
		return
	}

	// ---- phase 2: half-open. All phase-1 executions have returned (barrier above).
	delayCallsPhase1 := rd.delayCalls.Load()
	rd.mu.Lock()
	rd.execs = nil
	rd.mu.Unlock()
	rd.clock.Add(vk.Pick(r, int64(1000), 1000, 1001, 5000))
	conservation := r.IntN(2) == 0 && capTrial >= 2
	callers := int(capTrial) + 1 + r.IntN(6)
	if conservation {
		callers = int(capTrial) - 1 // fewer failing trials than needed to decide; the breaker must stay half-open
		if cfg.SuccKind == "" {
			callers = int(cfg.FailThreshold) - 1
		}
	} else {
		rep.Count("halfopen_rounds_with_more_callers_than_capacity", 1)
	}
	gates := make([]chan struct{}, callers)
	cancels := make([]context.CancelFunc, callers)
	behs := make([]string, callers)
	for i := 0; i < callers; i++ {
		gates[i] = make(chan struct{})
		beh := vk.Pick(r, "gate-ok", "gate-fail", "gate-fail", "block")
		if conservation {
			beh = vk.Pick(r, "gate-fail", "gate-fail", "block")
		}
		behs[i] = beh
		var ctx context.Context
		if beh == "block" && (cs.Comp == "cb" || cs.Comp == "retry(cb)" || cs.Comp == "fallback(cb)") || r.IntN(4) == 0 {
			ctx, cancels[i] = context.WithCancel(context.Background())
		}
		wg.Add(1)
		go func(i int, beh string, ctx context.Context) {
			defer wg.Done()
			rd.exec(i, beh, gates[i], ctx)
		}(i, beh, ctx)
	}
	// let callers reach the gate (bounded polling on the recorder, not a verdict)
	deadline := time.Now().Add(200 * time.Millisecond)
	for time.Now().Before(deadline) {
		time.Sleep(200 * time.Microsecond)
		rd.mu.Lock()
		done := len(rd.execs)
		rd.mu.Unlock()
		if done >= callers-int(capTrial) && !conservation {
			break
		}
	}
	time.Sleep(time.Duration(r.IntN(500)) * time.Microsecond)
	for _, i := range r.Perm(callers) {
		if cancels[i] != nil && (behs[i] == "block" || r.IntN(2) == 0) {
			cancels[i]()
		}
		close(gates[i])
		if r.IntN(2) == 0 {
			time.Sleep(time.Duration(r.IntN(100)) * time.Microsecond)
		}
	}
	wg.Wait()
	for _, c := range cancels {
		if c != nil {
			c()
		}
	}
	// overlap of executions admitted within one half-open episode
	type iv struct{ a, b int64 }
	episodes := map[int64][]iv{}
	for _, x := range rd.execs {
		if x.enter == 0 {
			continue
		}
		if rd.stateAt(x.enter) == model.HalfOpen && (rd.stateAt(x.call) == model.HalfOpen && rd.transitionsBetween(x.call, x.enter) == 0 || rd.stateAt(x.call) == model.Open && rd.transitionsBetween(x.call, x.enter) == 1) {
			// episode id = seq of the half-open transition in force at enter
			var ep int64
			for _, t := range rd.trans {
				if t.seq < x.enter && t.state == model.HalfOpen {
					ep = t.seq
				}
			}
			episodes[ep] = append(episodes[ep], iv{x.enter, x.exit})
		}
	}
	maxOverlap := 0
	for _, ivs := range episodes {
		type pt struct {
			s int64
			d int
		}
		var pts []pt
		for _, v := range ivs {
			pts = append(pts, pt{v.a, 1}, pt{v.b, -1})
		}
		sort.Slice(pts, func(i, j int) bool { return pts[i].s < pts[j].s })
		cur := 0
		for _, p := range pts {
			cur += p.d
			if cur > maxOverlap {
				maxOverlap = cur
			}
		}
	}
	if maxOverlap == int(capTrial) {
		rep.Count(fmt.Sprintf("halfopen_rounds_reaching_full_capacity_%d", capTrial), 1)
	}
	if maxOverlap > int(capTrial) {
		viol("halfopen-overadmission", fmt.Sprintf("%d executions admitted in one half-open episode were inside the function at once, trial capacity %d", maxOverlap, capTrial))
		return
	}
	rep.Count("phase2_executions", int64(len(rd.execs)))
	if rd.cb.IsHalfOpen() {
		// conservation probe at quiescence
		n := 0
		for rd.cb.TryAcquirePermit() {
			n++
			if n > 100 {
				break
			}
		}
		rep.Count("halfopen_conservation_probes", 1)
		if n != int(capTrial) {
			viol("halfopen-permit-conservation", fmt.Sprintf("after all trials finished the half-open breaker grants %d permits, trial capacity %d (trial outcomes: %s)", n, capTrial, c04Outcomes(rd.execs)))
			return
		}
	}
	// ---- phase 3: the trials re-opened the breaker (through executions, so its delay function was consulted again and
	// asked for 7x the delay). Open means open for THAT delay: it is what RemainingDelay reports, and after the fixed delay
	// has passed an execution is still refused without entering the function.
	rd.mu.Lock()
	lastTwo := append([]struct {
		seq   int64
		state int
	}(nil), rd.trans[max(0, len(rd.trans)-2):]...)
	rd.mu.Unlock()
	if cs.DelayFunc && delayCallsPhase1 == 1 && rd.cb.IsOpen() && len(lastTwo) == 2 && lastTwo[0].state == model.HalfOpen && lastTwo[1].state == model.Open {
		want := 7 * time.Duration(cfg.Delay)
		if rem := rd.cb.RemainingDelay(); rem != want {
			viol("reopened-for-the-wrong-delay", fmt.Sprintf("failed trials re-opened the breaker, the delay function asked for %v: RemainingDelay() is %v with the clock frozen since", want, rem))
			return
		}
		rd.clock.Add(cfg.Delay + 1)
		if x := rd.exec(0, "ok", nil, nil); x.enter != 0 || !refusedOutcome(cs.Comp, x) {
			viol("admitted-while-open", fmt.Sprintf("failed trials re-opened the breaker for %v (delay function); %v later an execution entered the function=%v with result (%d,%v)", want, time.Duration(cfg.Delay+1), x.enter != 0, x.res, x.err))
			return
		}
		rep.Count("reopened_rounds_checked_against_delay_function", 1)
	}
	rep.Distinct(fmt.Sprintf("%s|%d/%d|%s|%d|%s|%v|%v|%d|%v", cfg.Kind, cfg.FailThreshold, cfg.FailCapacity, cfg.SuccKind, capTrial, cs.Comp, cs.Async, across > 0, maxOverlap, conservation))
	if rep.WantSample() {
		rep.Sample(map[string]any{"case": cs, "opened_at_seq": openSeq, "in_flight_across_opening": across, "refused_after_opening": refused, "halfopen_callers": callers, "halfopen_max_overlap": maxOverlap})
	}
}

func c04Outcomes(xs []*c04Exec) string {
	s := ""
	for _, x := range xs {
		s += fmt.Sprintf("[entered=%v res=%d err=%v]", x.enter != 0, x.res, x.err)
	}
	return s
}

// ---- porcupine over standalone operations ----

type c04In struct {
	Op  string
	Adv int64
}

func c04Porcupine(rep *vk.Report, idx int) {
	r := vk.Rng(rep.Seed, "C04p", idx)
	cfg := genBreakerCfg(r)
	for cfg.Period != 0 {
		cfg = genBreakerCfg(r)
	}
	var clock atomic.Int64
	cb := buildBreaker(cfg, func() int64 { return clock.Load() }).Build()
	clients := 3 + r.IntN(5)
	per := 3 + r.IntN(4)
	var seq atomic.Int64
	var mu sync.Mutex
	var ops []porcupine.Operation
	var wg sync.WaitGroup
	for c := 0; c < clients; c++ {
		cr := vk.Rng(rep.Seed, "C04pc", idx*64+c)
		wg.Add(1)
		go func(c int) {
			defer wg.Done()
			for i := 0; i < per; i++ {
				in := c04In{Op: vk.Pick(cr, "try", "try", "succ", "fail", "fail", "state", "open", "half", "close", "adv")}
				var out int
				t0 := seq.Add(1)
				switch in.Op {
				case "try":
					if cb.TryAcquirePermit() {
						out = 1
					}
				case "succ":
					cb.RecordSuccess()
				case "fail":
					cb.RecordFailure()
				case "state":
					out = int(cb.State())
				case "open":
					cb.Open()
				case "half":
					cb.HalfOpen()
				case "close":
					cb.Close()
				case "adv":
					in.Adv = vk.Pick(cr, int64(1), cfg.Delay, cfg.Delay+1, cfg.Delay-1)
					if in.Adv < 1 {
						in.Adv = 1
					}
					clock.Add(in.Adv)
				}
				t1 := seq.Add(1)
				mu.Lock()
				ops = append(ops, porcupine.Operation{ClientId: c, Input: in, Call: t0, Output: out, Return: t1})
				mu.Unlock()
			}
		}(c)
	}
	wg.Wait()
	pm := porcupine.Model{
		Init: func() any { return model.NewBreaker(cfg) },
		Step: func(state, input, output any) (bool, any) {
			b := state.(*model.Breaker).Clone()
			in, out := input.(c04In), output.(int)
			switch in.Op {
			case "try":
				_, mism := b.TryAcquire(out)
				return mism == "", b
			case "succ":
				b.Record(false, cfg.Delay, -1)
			case "fail":
				b.Record(true, cfg.Delay, -1)
			case "state":
				return b.State == out, b
			case "open":
				b.ManualOpen()
			case "half":
				b.ManualHalfOpen()
			case "close":
				b.ManualClose()
			case "adv":
				b.Now += in.Adv
			}
			return true, b
		},
		Equal: func(a, b any) bool {
			x, y := a.(*model.Breaker), b.(*model.Breaker)
			return x.Now == y.Now && x.Key() == y.Key()
		},
	}
	res := porcupine.CheckOperationsTimeout(pm, ops, 60*time.Second)
	rep.Eval()
	rep.Count("porcupine_ops", int64(len(ops)))
	switch res {
	case porcupine.Ok:
		rep.Count("porcupine_histories_ok", 1)
		rep.Distinct(fmt.Sprintf("P|%s|%s|%d|%d", cfg.Kind, cfg.SuccKind, clients, per))
	case porcupine.Illegal:
		rep.Violate(idx, "C04/standalone-history-not-linearizable", fmt.Sprintf("concurrent breaker history of %d operations is not linearizable w.r.t. the documented machine (cfg %+v)", len(ops), cfg), map[string]any{"cfg": cfg, "ops": fmt.Sprint(ops)})
	default:
		rep.Inconclusive("porcupine timed out on a C04 history")
	}
}
