package checks

import (
	"context"
	"errors"
	"fmt"
	"math/rand/v2"
	"sort"
	"sync"
	"sync/atomic"
	"time"

	"github.com/anishathalye/porcupine"
	"github.com/failsafe-go/failsafe-go"
	"github.com/failsafe-go/failsafe-go/ratelimiter"

	"verifharness/model"
	"verifharness/vk"
)

func init() { register("C05", checkC05) }

type rlCfg struct {
	Smooth   bool  `json:"smooth"`
	Interval int64 `json:"interval,omitempty"`
	Period   int64 `json:"period,omitempty"`
	Max      int64 `json:"max,omitempty"`
	ViaRate  bool  `json:"via_period_builder,omitempty"`
}

type rlOp struct {
	T      int64  `json:"t"`
	Method string `json:"m"`
	K      int64  `json:"k"`
	MaxW   int64  `json:"maxwait"`
	Got    int64  `json:"got"` // wait, -1 refused
}

func genRlCfg(r *rand.Rand) rlCfg {
	if r.IntN(2) == 0 {
		c := rlCfg{Smooth: true, Interval: vk.Pick(r, int64(1), 3, 10, 1000, 1e6, 1e9, 3600e9)}
		c.ViaRate = r.IntN(3) == 0
		return c
	}
	return rlCfg{Period: vk.Pick(r, int64(1), 7, 1000, 1e9, 3600e9), Max: int64(1 + r.IntN(5))}
}

func buildLimiter(c rlCfg, maxWait time.Duration, onExceeded func(), sw func() time.Duration) ratelimiter.RateLimiter[int] {
	var b ratelimiter.RateLimiterBuilder[int]
	switch {
	case c.Smooth && c.ViaRate:
		b = ratelimiter.SmoothBuilder[int](4, time.Duration(4*c.Interval))
	case c.Smooth:
		b = ratelimiter.SmoothBuilderWithMaxRate[int](time.Duration(c.Interval))
	default:
		b = ratelimiter.BurstyBuilder[int](uint(c.Max), time.Duration(c.Period))
	}
	b.WithMaxWaitTime(maxWait)
	if onExceeded != nil {
		b.OnRateLimitExceeded(func(failsafe.ExecutionEvent[int]) { onExceeded() })
	}
	l := b.Build()
	if sw != nil {
		ratelimiter.VerifWithStopwatch(l, sw)
	}
	return l
}

func newLimiterModel(c rlCfg) *model.Limiter {
	return &model.Limiter{Smooth: c.Smooth, Interval: c.Interval, Period: c.Period, Max: c.Max}
}

func (c rlCfg) unit() int64 {
	if c.Smooth {
		return c.Interval
	}
	return c.Period
}

// callLimiter invokes one of the six non-blocking methods and normalises the answer to (wait | -1).
func callLimiter(l ratelimiter.RateLimiter[int], method string, k int64, mw int64) int64 {
	switch method {
	case "TryAcquirePermit":
		if l.TryAcquirePermit() {
			return 0
		}
		return -1
	case "TryAcquirePermits":
		if l.TryAcquirePermits(uint(k)) {
			return 0
		}
		return -1
	case "ReservePermit":
		return int64(l.ReservePermit())
	case "ReservePermits":
		return int64(l.ReservePermits(uint(k)))
	case "TryReservePermit":
		return int64(l.TryReservePermit(time.Duration(mw)))
	default:
		return int64(l.TryReservePermits(uint(k), time.Duration(mw)))
	}
}

// normalise returns the effective (k, maxWait) of a method call.
func rlEffective(method string, k, mw int64) (int64, int64) {
	switch method {
	case "TryAcquirePermit":
		return 1, 0
	case "TryAcquirePermits":
		return k, 0
	case "ReservePermit":
		return 1, -1
	case "ReservePermits":
		return k, -1
	case "TryReservePermit":
		return 1, mw
	}
	return k, mw
}

func checkC05(rep *vk.Report) {
	rep.Rule = "(A) sequential histories of 10-60 calls over the six non-blocking permit methods (permits 1-7, max waits 0/1ns/unit-1/unit/unit+1/3 units/none/negative) on a virtual stopwatch with instants on exact slot/period boundaries and idle gaps of 0-20 units, checked against an exact slot/period model, a twin limiter fed single-permit requests and skipping refused ones, and slot/period occupancy computed from observed waits only; (B) concurrent callers plus a clock-advancing controller, history checked with porcupine against the same model; (C) blocking acquires and executions in real time with a frozen stopwatch: sorted blocking durations must dominate {0,I,2I,..}, deadlines shorter than the wait must fail. Non-trivial: a history with >=1 positive wait, >=1 refusal and >=1 idle gap >=2 units; distinct by (type, unit, boundary kinds, deficit-then-gap, multi-permit)."
	rep.Assumptions = []string{
		"virtual stopwatch installed through ratelimiter.VerifWithStopwatch (verif build tag); it is read under the limiter's own lock, so clock+limiter form one linearizable object",
		"real-time part asserts only 'not earlier than' on the monotonic clock",
	}
	nA := scale(rep, 8000, 1000000)
	vk.Parallel(nA, 16, func(idx int) {
		if rep.Skip(idx) {
			return
		}
		rlSequential(rep, idx)
	})
	nB := scale(rep, 1200, 100000)
	vk.Parallel(nB, 16, func(i int) {
		idx := nA + i
		if rep.Skip(idx) {
			return
		}
		rlConcurrent(rep, idx, "C05")
	})
	nC := scale(rep, 48, 2000)
	vk.Parallel(nC, 16, func(i int) {
		idx := nA + nB + i
		if rep.Skip(idx) {
			return
		}
		rlBlocking(rep, idx)
	})
	rep.Require("A_histories_nontrivial", 10)
	rep.Require("A_deficit_then_idle_gap_cases", 5)
	rep.Require("B_histories_linearizable", 10)
	rep.Require("C_blocking_calls_that_waited", 10)
}

func rlSequential(rep *vk.Report, idx int) {
	r := vk.Rng(rep.Seed, "C05", idx)
	cfg := genRlCfg(r)
	u := cfg.unit()
	var now int64
	sw := func() time.Duration { return time.Duration(now) }
	lim := buildLimiter(cfg, 0, nil, sw)
	twin := buildLimiter(cfg, 0, nil, sw)
	m := newLimiterModel(cfg)
	occ := map[int64]int64{} // slot or period -> permits that become usable in it (from the twin's single grants)
	var ops []rlOp
	posWait, refusals, gaps, deficitGap, multi := 0, 0, 0, false, false
	bkinds := map[string]bool{}
	methods := []string{"TryAcquirePermit", "TryAcquirePermits", "ReservePermit", "ReservePermits", "TryReservePermit", "TryReservePermits"}
	n := 10 + r.IntN(51)
	prevDeficit, prevUnit := false, int64(0)
	for i := 0; i < n; i++ {
		// advance
		switch r.IntN(8) {
		case 0:
		case 1:
			now += u - now%u
			bkinds["edge"] = true
		case 2:
			if d := u - now%u - 1; d > 0 {
				now += d
				bkinds["edge-1"] = true
			}
		case 3:
			g := int64(2+r.IntN(19)) * u
			if m.Deficit(now) {
				deficitGap = true
				rep.Count("A_deficit_then_idle_gap_cases", 1)
			}
			now += g + r.Int64N(u)
			gaps++
		case 4:
			now += u
			bkinds["unit"] = true
		default:
			now += r.Int64N(u + 1)
		}
		method := methods[r.IntN(len(methods))]
		k := int64(1 + r.IntN(7))
		// -1 is the library's "no max wait"; any other negative max wait (a deadline that has already passed) can never be
		// met, not even by a wait of 0, so the request is refused at no cost
		mw := vk.Pick(r, int64(0), 1, u-1, u, u+1, 3*u, -1, 2*u, 0, 1, u, 3*u, -2, -u)
		ek, emw := rlEffective(method, k, mw)
		if ek > 1 {
			multi = true
		}
		got := callLimiter(lim, method, k, mw)
		if emw < -1 {
			// A14: a negative max wait other than -1 cannot be met by any positive wait, so a request that would have to wait
			// must be refused at no cost; whether a request that need not wait at all "exceeds" it is not stated (the smooth
			// limiter refuses it, the bursty one grants it) and is accepted either way
			if m.Clone().Acquire(now, ek, -1) == 0 && got == 0 {
				emw = -1
			}
		}
		want := m.Acquire(now, ek, emw)
		ops = append(ops, rlOp{now, method, ek, emw, got})
		rep.Count("A_calls", 1)
		if got != want {
			sig := "C05/wait-mismatch/" + map[bool]string{true: "smooth", false: "bursty"}[cfg.Smooth]
			if !cfg.Smooth && got != -1 && (want == -1 || got < want) && prevDeficit && now/u > prevUnit {
				sig = "C05/bursty-overcredit-after-deficit-and-idle-gap"
			}
			rep.Violate(idx, sig, fmt.Sprintf("call #%d %s(k=%d,maxWait=%d) at t=%d: wait %d, model %d (cfg %+v)", i, method, ek, emw, now, got, want, cfg), map[string]any{"cfg": cfg, "ops": ops})
			return
		}
		prevDeficit, prevUnit = m.Deficit(now), now/u
		if got == -1 {
			refusals++
			continue // the twin never sees a refused request
		}
		if got > 0 {
			posWait++
		}
		// twin: k single reservations at the same instant, waiting for the last
		var last int64
		for j := int64(0); j < ek; j++ {
			last = int64(twin.ReservePermit())
			occ[(now+last)/u]++
			lim := int64(1)
			if !cfg.Smooth {
				lim = cfg.Max
			}
			if occ[(now+last)/u] > lim {
				rep.Violate(idx, "C05/rate-exceeded", fmt.Sprintf("%d permits become usable in unit %d (limit %d) cfg %+v", occ[(now+last)/u], (now+last)/u, lim, cfg), map[string]any{"cfg": cfg, "ops": ops})
				return
			}
		}
		if last != got {
			rep.Violate(idx, "C05/multi-permit-not-equivalent-to-singles", fmt.Sprintf("call #%d %s(k=%d) waited %d but %d single requests on a twin limiter (which saw no refused request) wait %d for the last (cfg %+v)", i, method, ek, got, ek, last, cfg), map[string]any{"cfg": cfg, "ops": ops})
			return
		}
	}
	rep.Eval()
	if posWait > 0 && refusals > 0 && gaps > 0 {
		rep.Count("A_histories_nontrivial", 1)
		bk := []string{}
		for k := range bkinds {
			bk = append(bk, k)
		}
		sort.Strings(bk)
		rep.Distinct(fmt.Sprintf("A|%v|%d|%d|%v|%v|%v", cfg.Smooth, u, cfg.Max, bk, deficitGap, multi))
		if rep.WantSample() && len(ops) < 25 {
			rep.Sample(map[string]any{"part": "A", "cfg": cfg, "ops": ops})
		}
	}
}

// ---- (B) concurrent callers, porcupine ----

type rlIn struct {
	Adv  int64 // >0: advance the clock
	K    int64
	MaxW int64
}

func rlConcurrent(rep *vk.Report, idx int, prop string) {
	r := vk.Rng(rep.Seed, "C05", idx)
	cfg := genRlCfg(r)
	u := cfg.unit()
	var now atomic.Int64
	lim := buildLimiter(cfg, 0, nil, func() time.Duration { return time.Duration(now.Load()) })
	clients := 3 + r.IntN(4)
	perClient := 3 + r.IntN(4)
	var mu sync.Mutex
	var ops []porcupine.Operation
	var clock atomic.Int64
	var wg sync.WaitGroup
	for c := 0; c < clients; c++ {
		cr := vk.Rng(rep.Seed, "C05b", idx*100+c)
		wg.Add(1)
		go func(c int) {
			defer wg.Done()
			for i := 0; i < perClient; i++ {
				var in rlIn
				var outv int64
				if c == 0 {
					in.Adv = vk.Pick(cr, int64(1), u-1, u, u+1, 2*u, cr.Int64N(u+1)+1)
					if in.Adv < 1 {
						in.Adv = 1
					}
					t0 := clock.Add(1)
					now.Add(in.Adv)
					t1 := clock.Add(1)
					mu.Lock()
					ops = append(ops, porcupine.Operation{ClientId: c, Input: in, Call: t0, Output: int64(0), Return: t1})
					mu.Unlock()
					continue
				}
				in.K = int64(1 + cr.IntN(4))
				in.MaxW = vk.Pick(cr, int64(0), u, 3*u, -1, u-1)
				t0 := clock.Add(1)
				outv = int64(lim.TryReservePermits(uint(in.K), time.Duration(in.MaxW)))
				t1 := clock.Add(1)
				mu.Lock()
				ops = append(ops, porcupine.Operation{ClientId: c, Input: in, Call: t0, Output: outv, Return: t1})
				mu.Unlock()
			}
		}(c)
	}
	wg.Wait()
	type st struct {
		now int64
		l   model.Limiter
	}
	pm := porcupine.Model{
		Init: func() any { return st{0, *newLimiterModel(cfg)} },
		Step: func(state, input, output any) (bool, any) {
			s := state.(st)
			in := input.(rlIn)
			if in.Adv > 0 {
				s.now += in.Adv
				return true, s
			}
			w := s.l.Acquire(s.now, in.K, in.MaxW)
			return w == output.(int64), s
		},
		Equal: func(a, b any) bool { return a.(st) == b.(st) },
	}
	res := porcupine.CheckOperationsTimeout(pm, ops, 60*time.Second)
	rep.Eval()
	rep.Count("B_ops", int64(len(ops)))
	switch res {
	case porcupine.Ok:
		rep.Count("B_histories_linearizable", 1)
		rep.Distinct(fmt.Sprintf("B|%v|%d|%d|%d", cfg.Smooth, u, cfg.Max, clients))
	case porcupine.Illegal:
		rep.Violate(idx, prop+"/concurrent-history-not-linearizable", fmt.Sprintf("concurrent limiter history of %d ops is not linearizable w.r.t. the slot/period model (cfg %+v)", len(ops), cfg), map[string]any{"cfg": cfg, "ops": fmt.Sprint(ops)})
	default:
		rep.Inconclusive("porcupine timed out on a C05 history")
	}
}

// ---- (C) blocking acquires and executions in real time ----

func rlBlocking(rep *vk.Report, idx int) {
	r := vk.Rng(rep.Seed, "C05", idx)
	I := time.Duration(vk.Pick(r, 2, 3, 5)) * time.Millisecond
	smooth := r.IntN(2) == 0
	cfg := rlCfg{Smooth: smooth, Interval: int64(I), Period: int64(I), Max: int64(1 + r.IntN(3))}
	frozen := func() time.Duration { return 0 }
	var exceeded atomic.Int64
	maxWait := time.Duration(vk.Pick(r, 0, 2, 4, 100)) * I
	lim := buildLimiter(cfg, maxWait, func() { exceeded.Add(1) }, frozen)
	m := newLimiterModel(cfg)
	mode := r.IntN(3)
	rep.Eval()
	switch mode {
	case 0: // concurrent blocking acquires: sorted durations dominate the model's sorted waits
		g := 3 + r.IntN(6)
		durs := make([]time.Duration, g)
		var wg sync.WaitGroup
		for i := 0; i < g; i++ {
			wg.Add(1)
			go func(i int) {
				defer wg.Done()
				t0 := time.Now()
				if err := lim.AcquirePermit(context.Background()); err != nil {
					rep.Violate(idx, "C05/blocking-acquire-error", fmt.Sprintf("AcquirePermit with background context returned %v", err), cfg)
				}
				durs[i] = time.Since(t0)
			}(i)
		}
		wg.Wait()
		var waits []int64
		for i := 0; i < g; i++ {
			waits = append(waits, m.Acquire(0, 1, -1))
		}
		sort.Slice(durs, func(a, b int) bool { return durs[a] < durs[b] })
		sort.Slice(waits, func(a, b int) bool { return waits[a] < waits[b] })
		for i := range durs {
			if int64(durs[i]) < waits[i] {
				rep.Violate(idx, "C05/blocking-acquire-returned-early", fmt.Sprintf("%d concurrent AcquirePermit calls: %d-th shortest blocked %v but at least %v is owed (cfg %+v)", g, i, durs[i], time.Duration(waits[i]), cfg), cfg)
				return
			}
			if waits[i] > 0 {
				rep.Count("C_blocking_calls_that_waited", 1)
			}
		}
		rep.Distinct(fmt.Sprintf("C0|%v|%d|%d", smooth, I, g))
	case 1: // sequential blocking calls with deadlines around the owed wait
		n := 3 + r.IntN(5)
		for i := 0; i < n; i++ {
			k := int64(1 + r.IntN(3))
			mw := int64(vk.Pick(r, 0, 1, 3, 50)) * int64(I)
			want := m.Clone().Acquire(0, k, mw)
			ctx, cancel := context.Background(), context.CancelFunc(func() {})
			dl := time.Duration(-1)
			if want > 0 && r.IntN(2) == 0 {
				dl = time.Duration(want) / time.Duration(vk.Pick(r, 2, 4))
				ctx, cancel = context.WithTimeout(ctx, dl)
			}
			t0 := time.Now()
			err := lim.AcquirePermitsWithMaxWait(ctx, uint(k), time.Duration(mw))
			el := time.Since(t0)
			cancel()
			switch {
			case want == -1:
				if !errors.Is(err, ratelimiter.ErrExceeded) {
					rep.Violate(idx, "C05/refusal-not-reported", fmt.Sprintf("AcquirePermitsWithMaxWait(k=%d,maxWait=%v) owes more than the max wait but returned %v", k, time.Duration(mw), err), cfg)
					return
				}
			case err == nil:
				m.Acquire(0, k, mw)
				if int64(el) < want {
					rep.Violate(idx, "C05/blocking-acquire-returned-early", fmt.Sprintf("AcquirePermitsWithMaxWait(k=%d) succeeded after %v but its wait is %v (deadline %v, cfg %+v)", k, el, time.Duration(want), dl, cfg), cfg)
					return
				}
				if want > 0 {
					rep.Count("C_blocking_calls_that_waited", 1)
				}
			case errors.Is(err, context.DeadlineExceeded) && dl >= 0:
				m.Acquire(0, k, mw) // the reservation was made before waiting
				rep.Count("C_deadline_shorter_than_wait", 1)
			default:
				rep.Violate(idx, "C05/blocking-acquire-error", fmt.Sprintf("AcquirePermitsWithMaxWait returned unexpected %v (want wait %d)", err, want), cfg)
				return
			}
		}
		rep.Distinct(fmt.Sprintf("C1|%v|%d|%d", smooth, I, n))
	default: // executions through the policy: refused ones never run the function and fire the listener once
		n := 4 + r.IntN(6)
		ex := failsafe.NewExecutor[int](lim)
		refused := 0
		for i := 0; i < n; i++ {
			want := m.Acquire(0, 1, int64(maxWait))
			ran := false
			t0 := time.Now()
			_, err := ex.Get(func() (int, error) { ran = true; return i, nil })
			el := time.Since(t0)
			if want == -1 {
				refused++
				if ran || !errors.Is(err, ratelimiter.ErrExceeded) {
					rep.Violate(idx, "C05/refusal-not-reported", fmt.Sprintf("execution #%d owes more than max wait %v: ran=%v err=%v", i, maxWait, ran, err), cfg)
					return
				}
			} else {
				if !ran || err != nil {
					rep.Violate(idx, "C05/admission-mismatch", fmt.Sprintf("execution #%d should be admitted after %v: ran=%v err=%v", i, time.Duration(want), ran, err), cfg)
					return
				}
				if int64(el) < want {
					rep.Violate(idx, "C05/blocking-acquire-returned-early", fmt.Sprintf("execution #%d ran after %v, owed %v", i, el, time.Duration(want)), cfg)
					return
				}
				if want > 0 {
					rep.Count("C_blocking_calls_that_waited", 1)
				}
			}
		}
		if int(exceeded.Load()) != refused {
			rep.Violate(idx, "C05/exceeded-listener-count", fmt.Sprintf("OnRateLimitExceeded fired %d times for %d refusals", exceeded.Load(), refused), cfg)
		}
		rep.Count("C_executions_refused", int64(refused))
		rep.Distinct(fmt.Sprintf("C2|%v|%d|%d|%d", smooth, I, maxWait, n))
	}
}
