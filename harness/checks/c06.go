package checks

import (
	"context"
	"errors"
	"fmt"
	"runtime"
	"strings"
	"sync"
	"sync/atomic"
	"time"

	"github.com/anishathalye/porcupine"
	"github.com/failsafe-go/failsafe-go"
	"github.com/failsafe-go/failsafe-go/bulkhead"
	"github.com/failsafe-go/failsafe-go/fallback"
	"github.com/failsafe-go/failsafe-go/hedgepolicy"
	"github.com/failsafe-go/failsafe-go/retrypolicy"
	"github.com/failsafe-go/failsafe-go/timeout"

	"verifharness/vk"
)

func init() { register("C06", checkC06) }

type c06Case struct {
	Cap     int    `json:"max_concurrency"`
	MaxWait int64  `json:"max_wait_ns"`
	Comp    string `json:"composition"`
	Workers int    `json:"workers"`
	Iters   int    `json:"iterations_per_worker"`
}

func allStacks() string {
	buf := make([]byte, 1<<20)
	for {
		n := runtime.Stack(buf, true)
		if n < len(buf) {
			return string(buf[:n])
		}
		buf = make([]byte, 2*len(buf))
	}
}

// installYields makes the library's verification yield points perturb the schedule (Gosched or a short sleep).
func installYields(seed int64) {
	var ctr atomic.Uint64
	failsafe.VerifSetYield(func(point string) {
		yieldHits(point)
		x := ctr.Add(1)*0x9E3779B97F4A7C15 + uint64(seed)
		switch (x >> 32) % 4 {
		case 0:
			runtime.Gosched()
		case 1:
			time.Sleep(time.Duration(10+(x>>40)%150) * time.Microsecond)
		}
	})
}

var yieldCounts sync.Map // point -> *atomic.Int64

func yieldHits(point string) {
	c, ok := yieldCounts.Load(point)
	if !ok {
		c, _ = yieldCounts.LoadOrStore(point, &atomic.Int64{})
	}
	c.(*atomic.Int64).Add(1)
}

func reportYields(rep *vk.Report) {
	m := map[string]int64{}
	yieldCounts.Range(func(k, v any) bool { m[k.(string)] = v.(*atomic.Int64).Load(); return true })
	rep.Extra["yield_points_hit"] = m
}

func checkC06(rep *vk.Report) {
	rep.Rule = "round = one bulkhead (maxConcurrency 0 - admits nothing - or 1/2/3/5, max wait 0/200us/5ms/20ms) shared by 6-48 goroutines that run sync/async executions through {bh, retry(bh), timeout(bh), bh(timeout), hedge(bh), fallback(bh)} with functions that return, fail, hold or block until cancelled, contexts that are cancelled or reach a deadline before the call, while waiting for a permit or while holding it, standalone Try/Acquire/AcquireWithMaxWait/Release users, and release+cancel hand-offs fired back to back; yield point between the two acquire phases perturbed. Oracles: shadow occupancy (incremented inside the function / after a standalone acquire) never above maxConcurrency; after quiescence exactly maxConcurrency TryAcquirePermit probes succeed; ErrFull/context errors never come with a function entry; OnFull count equals ErrFull refusals; a goroutine parked in ReleasePermit at a stuck round means a permit was returned that was not held; standalone histories linearizable against a counting semaphore (porcupine). Non-trivial: more concurrent callers than permits with >=1 cancellation while waiting and >=1 while holding; distinct by (capacity, max wait, composition, workers, exit paths seen)."
	rep.Assumptions = []string{
		"the shadow counter is always <= the true occupancy (sound over-approximation of 'in progress')",
		"every wait in the workload is bounded, so a stuck round is decided on goroutine state (parked in ReleasePermit), not on the clock",
		"yield hook bulkhead.betweenAcquires (verif tag) only perturbs scheduling",
	}
	installYields(rep.Seed)
	defer failsafe.VerifSetYield(nil)
	rounds := scale(rep, 400, 30000)
	vk.Parallel(rounds, 4, func(idx int) {
		if rep.Skip(idx) {
			return
		}
		c06Round(rep, idx)
	})
	nh := scale(rep, 1500, 100000)
	vk.Parallel(nh, 16, func(i int) {
		idx := rounds + i
		if rep.Skip(idx) {
			return
		}
		c06Porcupine(rep, idx)
	})
	reportYields(rep)
	rep.Require("rounds_with_more_callers_than_permits", 50)
	rep.Require("cancelled_while_waiting", 50)
	rep.Require("cancelled_while_holding", 50)
	rep.Require("refused_ErrFull", 50)
	rep.Require("conservation_probes_ok", 50)
	rep.Require("porcupine_histories_ok", 100)
}

func c06Round(rep *vk.Report, idx int) {
	r := vk.Rng(rep.Seed, "C06", idx)
	cs := c06Case{Cap: vk.Pick(r, 1, 1, 2, 2, 3, 3, 5, 5, 0), MaxWait: vk.Pick(r, int64(0), 200e3, 5e6, 20e6),
		Comp: vk.Pick(r, "bh", "bh", "retry(bh)", "timeout(bh)", "bh(timeout)", "hedge(bh)", "fallback(bh)", "bh(bh2)"), Iters: 6 + r.IntN(10)}
	cs.Workers = cs.Cap + 2 + r.IntN(40)
	var onFull atomic.Int64
	bhBuilder := bulkhead.Builder[int](uint(cs.Cap)).WithMaxWaitTime(time.Duration(cs.MaxWait)).OnFull(func(failsafe.ExecutionEvent[int]) { onFull.Add(1) })
	bh := bhBuilder.Build()
	var pols []failsafe.Policy[int]
	switch cs.Comp {
	case "bh":
		pols = []failsafe.Policy[int]{bh}
	case "retry(bh)":
		pols = []failsafe.Policy[int]{retrypolicy.Builder[int]().WithMaxRetries(1).Build(), bh}
	case "timeout(bh)":
		pols = []failsafe.Policy[int]{timeout.With[int](3 * time.Millisecond), bh}
	case "bh(timeout)":
		pols = []failsafe.Policy[int]{bh, timeout.With[int](3 * time.Millisecond)}
	case "hedge(bh)":
		pols = []failsafe.Policy[int]{hedgepolicy.BuilderWithDelay[int](500 * time.Microsecond).WithMaxHedges(1).Build(), bh}
	case "fallback(bh)":
		pols = []failsafe.Policy[int]{fallback.WithResult[int](-1), bh}
	case "bh(bh2)":
		// a second, smaller bulkhead inside: executions admitted by the outer one are often refused by the inner one with
		// ErrFull - an outcome like any other for the outer bulkhead, which must still get its permit back
		inner := bulkhead.Builder[int](1).WithMaxWaitTime(time.Duration(cs.MaxWait) / 4).Build()
		pols = []failsafe.Policy[int]{bh, inner}
	}
	var shadow, inFn, maxShadow atomic.Int64
	var bad atomic.Pointer[string]
	enter := func() {
		v := shadow.Add(1)
		for {
			m := maxShadow.Load()
			if v <= m || maxShadow.CompareAndSwap(m, v) {
				break
			}
		}
		if v > int64(cs.Cap) {
			s := fmt.Sprintf("%d executions/permit holders in progress at once, maxConcurrency %d", v, cs.Cap)
			bad.CompareAndSwap(nil, &s)
		}
	}
	leave := func() { shadow.Add(-1) }
	var errFullResults, cancelledWaiting, cancelledHolding, admitted atomic.Int64
	rep.Eval()

	runExec := func(wr interface{ IntN(int) int }, w int) {
		beh := []string{"quick", "fail", "hold", "hold", "block"}[wr.IntN(5)]
		var ctx context.Context
		cancel := context.CancelFunc(func() {})
		switch wr.IntN(5) {
		case 0:
			ctx, cancel = context.WithCancel(context.Background())
			d := time.Duration(wr.IntN(2000)) * time.Microsecond
			if wr.IntN(4) == 0 {
				cancel() // before the call
			} else {
				time.AfterFunc(d, cancel)
			}
		case 1:
			ctx, cancel = context.WithTimeout(context.Background(), time.Duration(100+wr.IntN(5000))*time.Microsecond)
		}
		if beh == "block" && ctx == nil && cs.Comp != "timeout(bh)" && cs.Comp != "bh(timeout)" {
			ctx, cancel = context.WithTimeout(context.Background(), time.Duration(100+wr.IntN(3000))*time.Microsecond)
		}
		defer cancel()
		ex := failsafe.NewExecutor[int](pols...)
		if ctx != nil {
			ex = ex.WithContext(ctx)
		}
		var entered atomic.Int64
		hold := time.Duration(50+wr.IntN(500)) * time.Microsecond
		fn := func(exec failsafe.Execution[int]) (int, error) {
			entered.Add(1)
			inFn.Add(1)
			enter()
			defer func() { leave(); inFn.Add(-1) }()
			switch beh {
			case "hold":
				select {
				case <-time.After(hold):
				case <-exec.Canceled():
					cancelledHolding.Add(1)
					return 0, errE2
				}
			case "block":
				<-exec.Canceled()
				cancelledHolding.Add(1)
				return 0, errE2
			case "fail":
				return 0, errE1
			}
			return 1, nil
		}
		var res int
		var err error
		if wr.IntN(3) == 0 {
			ar := ex.GetWithExecutionAsync(fn)
			if wr.IntN(3) == 0 {
				// ExecutionResult.Cancel while the execution waits for a permit or holds one
				time.Sleep(time.Duration(wr.IntN(600)) * time.Microsecond)
				ar.Cancel()
			}
			res, err = ar.Get()
		} else {
			res, err = ex.GetWithExecution(fn)
		}
		if entered.Load() > 0 {
			admitted.Add(1)
		}
		single := cs.Comp == "bh" || cs.Comp == "timeout(bh)" || cs.Comp == "bh(timeout)"
		if errors.Is(err, bulkhead.ErrFull) {
			if single || cs.Comp == "fallback(bh)" {
				errFullResults.Add(1)
			}
			if single && entered.Load() != 0 {
				s := fmt.Sprintf("execution refused with ErrFull although its function was entered (%s)", cs.Comp)
				bad.CompareAndSwap(nil, &s)
			}
		}
		if cs.Comp == "bh" && (errors.Is(err, context.Canceled) || errors.Is(err, context.DeadlineExceeded) || errors.Is(err, failsafe.ErrExecutionCanceled)) {
			cancelledWaiting.Add(1)
			if entered.Load() != 0 {
				s := fmt.Sprintf("execution ended with %v (cancelled while waiting for a permit) although its function was entered", err)
				bad.CompareAndSwap(nil, &s)
			}
		}
		if cs.Comp == "fallback(bh)" && res == -1 && err == nil && entered.Load() == 0 {
			errFullResults.Add(0)
		}
		_ = res
	}
	standalone := func(wr interface{ IntN(int) int }) {
		hold := time.Duration(20+wr.IntN(300)) * time.Microsecond
		got := false
		switch wr.IntN(4) {
		case 0:
			got = bh.TryAcquirePermit()
		case 1:
			ctx, cancel := context.WithTimeout(context.Background(), time.Duration(100+wr.IntN(4000))*time.Microsecond)
			got = bh.AcquirePermit(ctx) == nil
			cancel()
		case 2:
			ctx, cancel := context.WithTimeout(context.Background(), time.Duration(100+wr.IntN(4000))*time.Microsecond)
			got = bh.AcquirePermitWithMaxWait(ctx, time.Duration(wr.IntN(3000))*time.Microsecond) == nil
			cancel()
		default: // hand-off: hold a permit, park a waiter, then release and cancel the waiter back to back
			if !bh.TryAcquirePermit() {
				return
			}
			enter()
			ctxW, cancelW := context.WithCancel(context.Background())
			done := make(chan struct{})
			go func() {
				defer close(done)
				dctx, dcancel := context.WithTimeout(ctxW, 10*time.Millisecond)
				defer dcancel()
				if bh.AcquirePermit(dctx) == nil {
					enter()
					time.Sleep(20 * time.Microsecond)
					leave()
					bh.ReleasePermit()
				} else {
					cancelledWaiting.Add(1)
				}
			}()
			time.Sleep(time.Duration(50+wr.IntN(200)) * time.Microsecond)
			leave()
			bh.ReleasePermit()
			cancelW()
			<-done
			return
		}
		if got {
			enter()
			time.Sleep(hold)
			leave()
			bh.ReleasePermit()
		}
	}

	var wg sync.WaitGroup
	for w := 0; w < cs.Workers; w++ {
		wr := vk.Rng(rep.Seed, "C06w", idx*128+w)
		wg.Add(1)
		go func(w int) {
			defer wg.Done()
			for i := 0; i < cs.Iters; i++ {
				if w == 1 && i == cs.Iters/2 {
					// the builder is used again while executions are in flight on the bulkhead it built earlier: a second,
					// independent bulkhead, which must leave the first one alone
					if other := bhBuilder.Build(); other.TryAcquirePermit() {
						other.ReleasePermit()
					}
				}
				if wr.IntN(4) == 0 {
					standalone(wr)
				} else {
					runExec(wr, w)
				}
			}
		}(w)
	}
	finished := make(chan struct{})
	go func() { wg.Wait(); close(finished) }()
	select {
	case <-finished:
	case <-time.After(20 * time.Second):
		st := allStacks()
		if strings.Contains(st, "ReleasePermit") && strings.Contains(st, "failsafe-go/bulkhead") {
			rep.Abort()
			rep.Violate(idx, "C06/release-without-permit", fmt.Sprintf("round stuck with every wait bounded: a goroutine is parked in ReleasePermit (a permit was returned that was not held) (case %+v)", cs), map[string]any{"case": cs, "stacks": st[:min(len(st), 6000)]})
		} else {
			rep.Abort()
			rep.Inconclusive("C06 round stuck for 20s without a goroutine parked in ReleasePermit")
		}
		return
	}
	if s := bad.Load(); s != nil {
		sig := "C06/over-admission"
		if strings.Contains(*s, "although its function was entered") {
			sig = "C06/refused-but-entered"
		}
		rep.Violate(idx, sig, *s+fmt.Sprintf(" (case %+v)", cs), cs)
		return
	}
	// quiescence: function brackets closed (hedge losers may still be running), then permits must all come back
	ok := false
	var got int
	for try := 0; try < 3000; try++ {
		if inFn.Load() == 0 {
			got = 0
			for bh.TryAcquirePermit() {
				got++
			}
			for k := 0; k < got; k++ {
				bh.ReleasePermit()
			}
			if got == cs.Cap {
				ok = true
				break
			}
		}
		time.Sleep(time.Millisecond)
	}
	if !ok {
		rep.Abort() // every further round would spend seconds polling for permits that are gone
		rep.Violate(idx, "C06/permit-conservation", fmt.Sprintf("after every execution finished only %d of %d permits can be acquired (case %+v; refusals=%d cancelled-waiting=%d cancelled-holding=%d)", got, cs.Cap, cs, errFullResults.Load(), cancelledWaiting.Load(), cancelledHolding.Load()), cs)
		return
	}
	rep.Count("conservation_probes_ok", 1)
	// with the bulkhead outermost (or only a Timeout inside it) a refusal is always the execution's own result
	if (cs.Comp == "bh" || cs.Comp == "bh(timeout)") && onFull.Load() != errFullResults.Load() {
		rep.Violate(idx, "C06/onfull-count", fmt.Sprintf("OnFull fired %d times, %d executions were refused with ErrFull (case %+v)", onFull.Load(), errFullResults.Load(), cs), cs)
		return
	}
	rep.Count("refused_ErrFull", errFullResults.Load())
	rep.Count("cancelled_while_waiting", cancelledWaiting.Load())
	rep.Count("cancelled_while_holding", cancelledHolding.Load())
	rep.Count("executions_admitted", admitted.Load())
	if maxShadow.Load() == int64(cs.Cap) {
		rep.Count(fmt.Sprintf("rounds_reaching_full_occupancy_cap_%d", cs.Cap), 1)
	}
	if cs.Workers > cs.Cap {
		rep.Count("rounds_with_more_callers_than_permits", 1)
	}
	rep.Distinct(fmt.Sprintf("%d|%d|%s|%d|%v|%v|%v", cs.Cap, cs.MaxWait, cs.Comp, cs.Workers/8, errFullResults.Load() > 0, cancelledWaiting.Load() > 0, cancelledHolding.Load() > 0))
	if rep.WantSample() {
		rep.Sample(map[string]any{"case": cs, "max_shadow_occupancy": maxShadow.Load(), "refused": errFullResults.Load(), "cancelled_waiting": cancelledWaiting.Load(), "cancelled_holding": cancelledHolding.Load(), "admitted": admitted.Load(), "on_full": onFull.Load()})
	}
}

// ---- porcupine: standalone API against a counting semaphore ----

type c06In struct{ Op string }

func c06Porcupine(rep *vk.Report, idx int) {
	r := vk.Rng(rep.Seed, "C06p", idx)
	cp := 1 + r.IntN(3)
	bh := bulkhead.With[int](uint(cp))
	clients := 3 + r.IntN(5)
	var seq atomic.Int64
	var mu sync.Mutex
	var ops []porcupine.Operation
	var wg sync.WaitGroup
	for c := 0; c < clients; c++ {
		cr := vk.Rng(rep.Seed, "C06pc", idx*64+c)
		wg.Add(1)
		go func(c int) {
			defer wg.Done()
			held := 0
			for i := 0; i < 6; i++ {
				op := vk.Pick(cr, "try", "try", "acq0", "acqw", "rel")
				if op == "rel" && held == 0 {
					op = "try"
				}
				out := 0
				t0 := seq.Add(1)
				switch op {
				case "try":
					if bh.TryAcquirePermit() {
						out = 1
						held++
					}
				case "acq0":
					if bh.AcquirePermitWithMaxWait(context.Background(), 0) == nil {
						out = 1
						held++
					}
				case "acqw":
					if bh.AcquirePermitWithMaxWait(context.Background(), time.Duration(50+cr.IntN(300))*time.Microsecond) == nil {
						out = 1
						held++
					}
				case "rel":
					bh.ReleasePermit()
					held--
				}
				t1 := seq.Add(1)
				mu.Lock()
				ops = append(ops, porcupine.Operation{ClientId: c, Input: c06In{op}, Call: t0, Output: out, Return: t1})
				mu.Unlock()
			}
			for ; held > 0; held-- {
				t0 := seq.Add(1)
				bh.ReleasePermit()
				t1 := seq.Add(1)
				mu.Lock()
				ops = append(ops, porcupine.Operation{ClientId: c, Input: c06In{"rel"}, Call: t0, Output: 0, Return: t1})
				mu.Unlock()
			}
		}(c)
	}
	wg.Wait()
	pm := porcupine.Model{
		Init: func() any { return 0 },
		Step: func(state, input, output any) (bool, any) {
			held := state.(int)
			switch input.(c06In).Op {
			case "rel":
				return held > 0, held - 1
			default:
				if output.(int) == 1 {
					return held < cp, held + 1
				}
				return held == cp, held
			}
		},
	}
	res := porcupine.CheckOperationsTimeout(pm, ops, 60*time.Second)
	rep.Eval()
	rep.Count("porcupine_ops", int64(len(ops)))
	switch res {
	case porcupine.Ok:
		rep.Count("porcupine_histories_ok", 1)
		rep.Distinct(fmt.Sprintf("P|%d|%d", cp, clients))
	case porcupine.Illegal:
		rep.Violate(idx, "C06/standalone-history-not-linearizable", fmt.Sprintf("concurrent bulkhead history (%d ops, capacity %d) is not linearizable w.r.t. a counting semaphore", len(ops), cp), map[string]any{"ops": fmt.Sprint(ops)})
	default:
		rep.Inconclusive("porcupine timed out on a C06 history")
	}
}
