package checks

import (
	"context"
	"errors"
	"fmt"
	"math/rand/v2"
	"reflect"
	"runtime"
	"sync"
	"sync/atomic"
	"time"

	"github.com/failsafe-go/failsafe-go"
	"github.com/failsafe-go/failsafe-go/bulkhead"
	"github.com/failsafe-go/failsafe-go/common"
	"github.com/failsafe-go/failsafe-go/fallback"
	"github.com/failsafe-go/failsafe-go/hedgepolicy"
	"github.com/failsafe-go/failsafe-go/ratelimiter"
	"github.com/failsafe-go/failsafe-go/retrypolicy"
	"github.com/failsafe-go/failsafe-go/timeout"

	"verifharness/vk"
)

func init() { register("C07", checkC07) }

type c07Case struct {
	Limit     int64   `json:"limit_ns"`
	F         float64 `json:"duration_over_limit"` // <0: block until cancelled
	Coop      bool    `json:"cooperative"`
	Placement string  `json:"placement"`
	Async     bool    `json:"async"`
}

type c07App struct {
	t0, t1 time.Time
	err    error
	res    int
	gid    uint64
}

// goid returns the current goroutine's id (used only to attribute a function run to the Timeout application that
// called it synchronously on the same goroutine).
func goid() uint64 {
	var buf [64]byte
	n := runtime.Stack(buf[:], false)
	var id uint64
	for _, c := range buf[len("goroutine "):n] {
		if c < '0' || c > '9' {
			break
		}
		id = id*10 + uint64(c-'0')
	}
	return id
}

type c07Fn struct {
	enter, exit time.Time
	sawCancel   bool
	retRes      int
	retErr      error
	gid         uint64
	value       int
	blocking    bool
	exec        failsafe.Execution[int]
}

type c07Exec struct {
	cs        c07Case
	mu        sync.Mutex
	apps      []c07App
	fns       []*c07Fn
	listeners atomic.Int64
	lisTimes  []time.Time
	res       int
	err       error
	idx       int
}

var c07Placements = []string{"T", "T", "Retry(T)", "T(Retry)", "Fallback(T)", "T(Fallback)", "Hedge(T)", "T(Hedge)", "BH(T)", "T(BH)", "RL(T)", "T(RL)"}

func genC07(r *rand.Rand) c07Case {
	cs := c07Case{Limit: vk.Pick(r, int64(200e3), 1e6, 1e6, 5e6, 20e6), Placement: c07Placements[r.IntN(len(c07Placements))], Async: r.IntN(4) == 0, Coop: r.IntN(2) == 0}
	cs.F = vk.Pick(r, 0, 0.1, 0.5, 0.9, 0.98, 1.0, 1.02, 1.1, 2, -1, -1)
	return cs
}

var c07Seq atomic.Int64

func (x *c07Exec) run() {
	cs := x.cs
	L := time.Duration(cs.Limit)
	tb := timeout.Builder[int](L).OnTimeoutExceeded(func(e failsafe.ExecutionDoneEvent[int]) {
		x.listeners.Add(1)
		x.mu.Lock()
		x.lisTimes = append(x.lisTimes, time.Now())
		x.mu.Unlock()
	})
	T := tb.Build()
	probe := &probePolicy{
		before: func(failsafe.Execution[int]) any { return time.Now() },
		after: func(_ failsafe.Execution[int], tok any, r *common.PolicyResult[int]) {
			a := c07App{t0: tok.(time.Time), t1: time.Now(), err: r.Error, res: r.Result, gid: goid()}
			x.mu.Lock()
			x.apps = append(x.apps, a)
			x.mu.Unlock()
		},
	}
	retry := retrypolicy.Builder[int]().WithMaxRetries(2).Build()
	fb := fallback.WithResult[int](-1)
	hedge := hedgepolicy.BuilderWithDelay[int](L / 2).WithMaxHedges(2).Build()
	bh := bulkhead.Builder[int](2).WithMaxWaitTime(L).Build()
	rl := ratelimiter.SmoothBuilderWithMaxRate[int](L / 4).WithMaxWaitTime(2 * L).Build()
	var pols []failsafe.Policy[int]
	switch cs.Placement {
	case "T":
		pols = []failsafe.Policy[int]{probe, T}
	case "Retry(T)":
		pols = []failsafe.Policy[int]{retry, probe, T}
	case "T(Retry)":
		pols = []failsafe.Policy[int]{probe, T, retry}
	case "Fallback(T)":
		pols = []failsafe.Policy[int]{fb, probe, T}
	case "T(Fallback)":
		pols = []failsafe.Policy[int]{probe, T, fb}
	case "Hedge(T)":
		pols = []failsafe.Policy[int]{hedge, probe, T}
	case "T(Hedge)":
		pols = []failsafe.Policy[int]{probe, T, hedge}
	case "BH(T)":
		bh.TryAcquirePermit()
		go func() { time.Sleep(L / 3); bh.ReleasePermit() }()
		bh.TryAcquirePermit() // full: the execution queues for ~L/3 before the Timeout starts
		pols = []failsafe.Policy[int]{bh, probe, T}
	case "T(BH)":
		pols = []failsafe.Policy[int]{probe, T, bh}
	case "RL(T)":
		rl.TryAcquirePermit() // the execution waits for the next interval before the Timeout starts
		pols = []failsafe.Policy[int]{rl, probe, T}
	case "T(RL)":
		pols = []failsafe.Policy[int]{probe, T, rl}
	}
	var n atomic.Int64
	fn := func(exec failsafe.Execution[int]) (int, error) {
		k := n.Add(1)
		f := &c07Fn{enter: time.Now(), exec: exec, value: int(c07Seq.Add(1)) + 1000000, gid: goid()}
		x.mu.Lock()
		x.fns = append(x.fns, f)
		x.mu.Unlock()
		ret := func(v int, e error) (int, error) {
			f.retRes, f.retErr = v, e
			x.mu.Lock()
			f.exit = time.Now()
			x.mu.Unlock()
			return v, e
		}
		fr := cs.F
		if cs.Placement == "Retry(T)" && k == 3 && fr != 0 {
			fr = 0 // a fast last attempt after slower ones: the limit must apply afresh
		}
		if fr < 0 {
			f.blocking = true
			<-exec.Canceled()
			f.sawCancel = true
			return ret(0, errE2)
		}
		d := time.Duration(fr * float64(cs.Limit))
		for time.Since(f.enter) < d {
			if cs.Coop && exec.IsCanceled() {
				f.sawCancel = true
				return ret(0, errE2)
			}
			if d > 2*time.Millisecond {
				time.Sleep(50 * time.Microsecond)
			}
		}
		if cs.Placement == "Retry(T)" && k < 3 {
			return ret(f.value, errE1) // make the retry policy try again
		}
		return ret(f.value, nil)
	}
	ex := failsafe.NewExecutor[int](pols...)
	if cs.Async {
		x.res, x.err = ex.GetWithExecutionAsync(fn).Get()
	} else {
		x.res, x.err = ex.GetWithExecution(fn)
	}
}

func checkC07(rep *vk.Report) {
	rep.Rule = "execution = fresh Timeout (limit 200us/1ms/5ms/20ms) at one of 11 placements relative to retry, fallback, hedge, bulkhead and rate limiter, around a function lasting f x limit (f in 0,.1,.5,.9,.98,1,1.02,1.1,2; busy or cooperative) or blocking until cancelled; yield points around the timer's compare-and-swap perturbed. A transparent probe policy placed directly outside the Timeout gives, per application, a timestamp preceding the timer's start, one following the return, and the returned PolicyResult. Oracles per application: ErrExceeded => t1-t0 >= limit, every listener call and every observed cancellation >= t0+limit, and the function's Execution becomes cancelled; inner result => identical value when the Timeout wraps the function directly, and the Execution stays uncancelled; a function that only returns on cancellation => ErrExceeded. Per execution after limit+60ms grace: listener calls == applications that returned ErrExceeded. Plus nested scenarios where an inner Timeout's (or the function's own, wrapped) ErrExceeded passes through an outer 1h Timeout: the outer listener stays silent and its execution uncancelled. Non-trivial: an application that timed out with f<1.05, returned normally with f>0.95, or blocked; distinct by (limit, f, placement, cooperative, async, outcome pattern)."
	rep.Assumptions = []string{
		"probe policy = the library's own Policy extension point (ToExecutor/Apply); it adds no synchronisation between the Timeout and the function",
		"R1: only lower bounds on the monotonic clock are asserted; the grace rule relies on a stopped or CAS-losing timer never calling the listener later",
		"yield hooks timeout.timer.beforeCAS/afterCAS (verif tag) only perturb scheduling",
	}
	var timerEnter, timerWon atomic.Int64
	var ctr atomic.Uint64
	failsafe.VerifSetYield(func(point string) {
		switch point {
		case "timeout.timer.beforeCAS":
			timerEnter.Add(1)
		case "timeout.timer.afterCAS":
			timerWon.Add(1)
		default:
			return
		}
		x := ctr.Add(1) * 0x9E3779B97F4A7C15
		switch (x >> 33) % 4 {
		case 0:
			runtime.Gosched()
		case 1:
			time.Sleep(time.Duration(5+(x>>40)%80) * time.Microsecond)
		}
	})
	defer failsafe.VerifSetYield(nil)
	total := scale(rep, 8000, 600000)
	batch := 400
	for b := 0; b*batch < total; b++ {
		if rep.Skip(-1) && rep.Only < 0 {
			break
		}
		execs := make([]*c07Exec, batch)
		vk.Parallel(batch, 12, func(i int) {
			idx := b*batch + i
			if rep.Skip(idx) {
				return
			}
			r := vk.Rng(rep.Seed, "C07", idx)
			x := &c07Exec{cs: genC07(r), idx: idx}
			execs[i] = x
			x.run()
		})
		time.Sleep(20*time.Millisecond + 60*time.Millisecond) // grace: the longest limit plus margin after the last return
		for _, x := range execs {
			if x != nil {
				c07Judge(rep, x)
			}
		}
	}
	nn := scale(rep, 200, 10000)
	vk.Parallel(nn, 16, func(i int) {
		if rep.Skip(total + i) {
			return
		}
		c07Nested(rep, total+i)
	})
	rep.Extra["timer_callbacks_entered"] = timerEnter.Load()
	rep.Extra["timer_callbacks_that_won_the_race"] = timerWon.Load()
	rep.Count("timer_callbacks_that_lost_the_race", timerEnter.Load()-timerWon.Load())
	rep.Require("timeout_outcome_with_f_below_1.05", 20)
	rep.Require("inner_outcome_with_f_above_0.95", 20)
	rep.Require("timer_callbacks_that_lost_the_race", 1)
	rep.Require("timer_won_although_function_had_returned", 1)
	rep.Require("fresh_limit_after_timed_out_attempts", 5)
	rep.Require("blocking_function_timed_out", 100)
}

func c07Judge(rep *vk.Report, x *c07Exec) {
	cs := x.cs
	L := time.Duration(cs.Limit)
	rep.Eval()
	viol := func(sig, msg string) {
		rep.Violate(x.idx, "C07/"+sig, msg+fmt.Sprintf(" (case %+v; result (%d,%v); applications %d, listener calls %d)", cs, x.res, x.err, len(x.apps), x.listeners.Load()), cs)
	}
	direct := cs.Placement == "T" || cs.Placement == "Retry(T)" || cs.Placement == "Fallback(T)" || cs.Placement == "Hedge(T)" || cs.Placement == "BH(T)" || cs.Placement == "RL(T)"
	timedOut := 0
	pattern := ""
	for ai, a := range x.apps {
		isTO := a.err != nil && errors.Is(a.err, timeout.ErrExceeded)
		if isTO {
			timedOut++
			pattern += "T"
			if d := a.t1.Sub(a.t0); d < L {
				viol("early", fmt.Sprintf("application #%d returned ErrExceeded %v after it started, limit %v", ai, d, L))
				return
			}
			if cs.F >= 0 && cs.F < 1.05 {
				rep.Count("timeout_outcome_with_f_below_1.05", 1)
			}
		} else {
			pattern += "r"
			if cs.F > 0.95 {
				rep.Count("inner_outcome_with_f_above_0.95", 1)
			}
		}
		// function runs inside this application's bracket
		for _, f := range x.fns {
			// the Timeout calls what it wraps synchronously: same goroutine and inside the bracket; with a hedge or retry
			// between the Timeout and the function there is a single application and every run belongs to it
			if len(x.apps) > 1 && (f.gid != a.gid || f.enter.Before(a.t0) || f.enter.After(a.t1)) {
				continue
			}
			if f.exit.IsZero() {
				continue // still running (abandoned attempt): nothing to compare yet
			}
			if f.blocking && direct && cs.Placement != "Hedge(T)" { // a hedge cancels its losing attempts itself
				if !isTO {
					viol("blocking-function-not-timed-out", fmt.Sprintf("application #%d: the function only returns on cancellation but the Timeout returned (%d,%v)", ai, a.res, a.err))
					return
				}
				rep.Count("blocking_function_timed_out", 1)
			}
			if f.sawCancel && cs.Placement != "Hedge(T)" && cs.Placement != "T(Hedge)" && f.exit.Sub(a.t0) < L {
				viol("cancelled-early", fmt.Sprintf("application #%d: the function observed cancellation %v after the application started, limit %v", ai, f.exit.Sub(a.t0), L))
				return
			}
			if direct {
				if isTO {
					if !f.sawCancel && !f.blocking && !f.exit.IsZero() && f.exit.Before(a.t1) {
						rep.Count("timer_won_although_function_had_returned", 1)
					}
					// the execution and its context must end up cancelled for everything inside the Timeout
					ok := false
					for w := 0; w < 2000; w++ {
						if f.exec.IsCanceled() && f.exec.Context().Err() != nil {
							ok = true
							break
						}
						time.Sleep(time.Millisecond)
					}
					if !ok {
						viol("not-cancelled-after-timeout", fmt.Sprintf("application #%d returned ErrExceeded but the function's Execution/Context is not cancelled 2s later", ai))
						return
					}
				} else {
					if a.res != f.retRes || a.err != f.retErr {
						viol("inner-result-changed", fmt.Sprintf("application #%d returned (%d,%v), the function returned (%d,%v)", ai, a.res, a.err, f.retRes, f.retErr))
						return
					}
					if cs.Placement != "Hedge(T)" && f.exec.IsCanceled() {
						viol("cancelled-without-timeout", fmt.Sprintf("application #%d returned the inner result but the function's Execution is cancelled", ai))
						return
					}
				}
			}
		}
		if cs.Placement == "Retry(T)" && ai == 2 && cs.F != 0 && !isTO && timedOut > 0 {
			rep.Count("fresh_limit_after_timed_out_attempts", 1)
		}
	}
	// listener: exactly once per timed-out application, never otherwise (counts are final after the grace period)
	// a callback that won the compare-and-swap calls the listener right away, but its goroutine may be descheduled on a
	// loaded machine: too few calls are re-read for up to 2s, too many are final immediately
	for w := 0; w < 2000 && int(x.listeners.Load()) < timedOut; w++ {
		time.Sleep(time.Millisecond)
	}
	if int(x.listeners.Load()) != timedOut {
		viol("listener-count", fmt.Sprintf("OnTimeoutExceeded called %d times, %d applications returned ErrExceeded (pattern %s)", x.listeners.Load(), timedOut, pattern))
		return
	}
	for _, lt := range x.lisTimes {
		early := true
		for _, a := range x.apps {
			if !lt.Before(a.t0.Add(L)) {
				early = false
			}
		}
		if early && len(x.apps) > 0 {
			viol("listener-early", fmt.Sprintf("OnTimeoutExceeded called before any application had run for the limit %v", L))
			return
		}
	}
	if timedOut > 0 || cs.F > 0.95 || cs.F < 0 {
		rep.Distinct(fmt.Sprintf("%d|%.2f|%s|%v|%v|%s", cs.Limit, cs.F, cs.Placement, cs.Coop, cs.Async, pattern))
		if rep.WantSample() && len(x.apps) >= 2 {
			rep.Sample(map[string]any{"case": cs, "applications": pattern, "listener_calls": x.listeners.Load(), "function_runs": len(x.fns), "result": fmt.Sprintf("(%d,%v)", x.res, x.err)})
		}
	}
}

// c07Nested: an ErrExceeded that merely passes through a Timeout which has not expired must leave that Timeout's outcome
// "not exceeded": result unchanged, listener silent, execution not cancelled by it.
func c07Nested(rep *vk.Report, idx int) {
	r := vk.Rng(rep.Seed, "C07n", idx)
	kind := vk.Pick(r, "T(Tshort)", "T(Retry(Tshort))", "T(fn-returns-wrapped-ErrExceeded)", "T(Fallback(Tshort))", "T-cancelled-from-outside", "Hedge(Retry(T))", "T-limit-not-positive")
	if kind == "T-limit-not-positive" {
		c07NonPositiveLimit(rep, idx, r)
		return
	}
	if kind == "T-cancelled-from-outside" {
		c07Outside(rep, idx, r, "C07")
		return
	}
	if kind == "Hedge(Retry(T))" {
		c07HedgeRetry(rep, idx, r)
		return
	}
	L := time.Duration(vk.Pick(r, 300, 1000, 3000)) * time.Microsecond
	var outerCalls, innerCalls atomic.Int64
	outer := timeout.Builder[int](time.Hour).OnTimeoutExceeded(func(failsafe.ExecutionDoneEvent[int]) { outerCalls.Add(1) }).Build()
	inner := timeout.Builder[int](L).OnTimeoutExceeded(func(failsafe.ExecutionDoneEvent[int]) { innerCalls.Add(1) }).Build()
	var outerExec failsafe.Execution[int]
	// the probe sits directly inside the outer Timeout: it sees the execution the outer Timeout hands inwards and the
	// result that comes back to it
	var innerRes int
	var innerErr error
	probe := &probePolicy{
		before: func(e failsafe.Execution[int]) any { outerExec = e; return nil },
		after: func(_ failsafe.Execution[int], _ any, pr *common.PolicyResult[int]) {
			innerRes, innerErr = pr.Result, pr.Error
		},
	}
	var pols []failsafe.Policy[int]
	wantInner := int64(1)
	switch kind {
	case "T(Tshort)":
		pols = []failsafe.Policy[int]{outer, probe, inner}
	case "T(Retry(Tshort))":
		pols = []failsafe.Policy[int]{outer, probe, retrypolicy.Builder[int]().WithMaxRetries(1).Build(), inner}
		wantInner = 2
	case "T(Fallback(Tshort))":
		pols = []failsafe.Policy[int]{outer, probe, fallback.BuilderWithError[int](fmt.Errorf("fb: %w", timeout.ErrExceeded)).Build(), inner}
	default:
		pols = []failsafe.Policy[int]{outer, probe}
		wantInner = 0
	}
	res, err := failsafe.NewExecutor[int](pols...).GetWithExecution(func(e failsafe.Execution[int]) (int, error) {
		if wantInner == 0 {
			return 42, fmt.Errorf("downstream: %w", timeout.ErrExceeded)
		}
		<-e.Canceled()
		return 0, errE2
	})
	time.Sleep(L + 20*time.Millisecond)
	rep.Eval()
	cs := map[string]any{"kind": kind, "inner_limit_ns": int64(L)}
	if !errors.Is(err, timeout.ErrExceeded) || outerCalls.Load() != 0 || innerCalls.Load() != wantInner || (outerExec != nil && outerExec.IsCanceled()) {
		rep.Violate(idx, "C07/pass-through-timeout-error-treated-as-own", fmt.Sprintf("%s (inner limit %v): result %v, outer (1h) Timeout's listener called %d times (want 0), inner listener %d times (want %d), outer Timeout's execution cancelled=%v", kind, L, err, outerCalls.Load(), innerCalls.Load(), wantInner, outerExec != nil && outerExec.IsCanceled()), cs)
		return
	}
	// the outer Timeout did not expire: what came back to it is what the caller gets, value and error unchanged
	if res != innerRes || !reflect.DeepEqual(err, innerErr) {
		rep.Violate(idx, "C07/inner-result-not-returned-unchanged", fmt.Sprintf("%s (inner limit %v): the outer (1h) Timeout was handed (%d, %v) [%T] from inside and returned (%d, %v) [%T]", kind, L, innerRes, innerErr, innerErr, res, err, err), cs)
		return
	}
	rep.Count("nested_timeout_scenarios", 1)
	rep.Distinct(fmt.Sprintf("nested|%s|%d", kind, L))
}

// c07Outside: a Timeout whose execution is cancelled from outside (context) well before the limit, with a function that
// returns the context's error as I/O code does: the Timeout did not expire, so its listener must stay silent for good
// (a timer left armed would call it once the limit passes).
func c07Outside(rep *vk.Report, idx int, r *rand.Rand, prop string) {
	L := time.Duration(vk.Pick(r, 10, 20, 30)) * time.Millisecond
	var calls, timedOutApps atomic.Int64
	T := timeout.Builder[int](L).OnTimeoutExceeded(func(failsafe.ExecutionDoneEvent[int]) { calls.Add(1) }).Build()
	// the probe sits directly outside the Timeout and counts the applications that really ended in ErrExceeded (on a
	// stalled machine the limit can pass before the outside cancellation is delivered: that is a regular timeout)
	probe := &probePolicy{after: func(_ failsafe.Execution[int], _ any, res *common.PolicyResult[int]) {
		if res.Error != nil && errors.Is(res.Error, timeout.ErrExceeded) {
			timedOutApps.Add(1)
		}
	}}
	ctx, cancel := context.WithCancel(context.Background())
	defer cancel()
	time.AfterFunc(L/10, cancel)
	pols := []failsafe.Policy[int]{probe, T}
	if r.IntN(2) == 0 {
		pols = []failsafe.Policy[int]{retrypolicy.Builder[int]().WithMaxRetries(1).Build(), probe, T}
	}
	// the function either returns the context's error as soon as it is cancelled, or is slow to react and is still running
	// when the limit passes (then the Timeout does expire: a regular timeout, listener and all)
	slow := r.IntN(3) == 0
	fn := func(e failsafe.Execution[int]) (int, error) {
		<-e.Canceled()
		if slow {
			time.Sleep(L + L/2)
		}
		return 0, e.Context().Err()
	}
	var err error
	if r.IntN(2) == 0 {
		_, err = failsafe.NewExecutor[int](pols...).WithContext(ctx).GetWithExecution(fn)
	} else {
		_, err = failsafe.NewExecutor[int](pols...).WithContext(ctx).GetWithExecutionAsync(fn).Get()
	}
	time.Sleep(L + 30*time.Millisecond)
	rep.Eval()
	if calls.Load() != timedOutApps.Load() {
		sig := prop + "/listener-called-without-timeout"
		if prop == "C19" {
			sig = "C19/timeout-timer-left-armed"
		}
		rep.Violate(idx, sig, fmt.Sprintf("Timeout (limit %v) cancelled from outside after %v: result %v, %d applications of the Timeout returned ErrExceeded but OnTimeoutExceeded was called %d times by %v after the execution finished", L, L/10, err, timedOutApps.Load(), calls.Load(), L+30*time.Millisecond), map[string]any{"limit_ns": int64(L)})
		return
	}
	if timedOutApps.Load() == 0 {
		rep.Count("outside_cancellation_scenarios", 1)
		rep.Distinct(fmt.Sprintf("outside|%d|%d", L, len(pols)))
	} else if slow {
		rep.Count("outside_cancellation_then_regular_timeout_of_slow_function", 1)
		rep.Distinct(fmt.Sprintf("outside-slow|%d|%d", L, len(pols)))
	} else {
		rep.Count("outside_cancellation_scenarios_stalled_into_regular_timeout", 1)
	}
}

// c07HedgeRetry: Hedge(Retry(Timeout(fn))): the limit applies afresh to each attempt of the retry policy also inside a
// hedged attempt - a Timeout firing inside the hedge branch must cancel only what is inside that Timeout. Decided
// without any timing assumption: a probe policy between the retry policy and the Timeout looks at the execution the
// retry policy works on right after the Timeout returned ErrExceeded; before any result has been accepted by the hedge
// policy nothing but that Timeout can have cancelled anything, so that execution must still be live.
func c07HedgeRetry(rep *vk.Report, idx int, r *rand.Rand) {
	L := time.Duration(vk.Pick(r, 4, 6, 10)) * time.Millisecond
	hp := hedgepolicy.BuilderWithDelay[int](L / 3).WithMaxHedges(1).CancelIf(func(_ int, err error) bool { return err == nil }).Build()
	rp := retrypolicy.Builder[int]().WithMaxRetries(40).Build()
	T := timeout.With[int](L)
	var hedgeCalls atomic.Int64
	var produced atomic.Bool
	var bad atomic.Pointer[string]
	probe := &probePolicy{after: func(e failsafe.Execution[int], _ any, res *common.PolicyResult[int]) {
		if res.Error != nil && errors.Is(res.Error, timeout.ErrExceeded) && !produced.Load() && e.IsCanceled() {
			msg := fmt.Sprintf("the Timeout inside a %s attempt returned ErrExceeded and the execution of the enclosing retry policy is cancelled too (hedge attempt=%v)", map[bool]string{true: "hedged", false: "first"}[e.IsHedge()], e.IsHedge())
			bad.CompareAndSwap(nil, &msg)
		}
	}}
	fn := func(e failsafe.Execution[int]) (int, error) {
		if !e.IsHedge() || hedgeCalls.Add(1) == 1 {
			<-e.Canceled() // the original attempt always times out; so does the hedge branch's first try
			return 0, errE2
		}
		produced.Store(true)
		return 4242, nil
	}
	res, err := failsafe.NewExecutor[int](hp, rp, probe, T).GetWithExecution(fn)
	rep.Eval()
	if s := bad.Load(); s != nil {
		rep.Violate(idx, "C07/timeout-cancelled-outside-its-scope", fmt.Sprintf("Hedge(Retry(Timeout %v)): %s; call returned (%d,%v) after %d hedge-branch tries", L, *s, res, err, hedgeCalls.Load()), map[string]any{"limit_ns": int64(L)})
		return
	}
	if res == 4242 && err == nil {
		rep.Count("hedge_retry_timeout_scenarios", 1)
		rep.Distinct(fmt.Sprintf("hrt|%d", L))
	} else {
		rep.Count("hedge_retry_timeout_scenarios_not_judged_late_timer", 1)
	}
}

// c07NonPositiveLimit: "for every time limit" includes one that has already passed (0, or negative: a limit computed from
// a remaining budget). The two-outcome rule is the same: a function that only returns on cancellation ends in ErrExceeded
// with its execution cancelled, and the listener is called exactly once per application that ended in ErrExceeded -
// per attempt when a retry policy encloses the Timeout.
func c07NonPositiveLimit(rep *vk.Report, idx int, r *rand.Rand) {
	L := time.Duration(vk.Pick(r, 0, 0, -1, -5000000))
	var calls, timedOutApps, apps, sawCancel atomic.Int64
	T := timeout.Builder[int](L).OnTimeoutExceeded(func(failsafe.ExecutionDoneEvent[int]) { calls.Add(1) }).Build()
	probe := &probePolicy{after: func(_ failsafe.Execution[int], _ any, res *common.PolicyResult[int]) {
		apps.Add(1)
		if res.Error != nil && errors.Is(res.Error, timeout.ErrExceeded) {
			timedOutApps.Add(1)
		}
	}}
	retries := r.IntN(3)
	pols := []failsafe.Policy[int]{probe, T}
	if retries > 0 {
		pols = []failsafe.Policy[int]{retrypolicy.Builder[int]().WithMaxRetries(retries).Build(), probe, T}
	}
	blocking := r.IntN(3) != 0
	fn := func(e failsafe.Execution[int]) (int, error) {
		if blocking {
			select {
			case <-e.Canceled():
				sawCancel.Add(1)
			case <-time.After(5 * time.Second):
			}
			return 0, errE2
		}
		return 1, nil
	}
	var err error
	if r.IntN(3) == 0 {
		_, err = failsafe.NewExecutor[int](pols...).GetWithExecutionAsync(fn).Get()
	} else {
		_, err = failsafe.NewExecutor[int](pols...).GetWithExecution(fn)
	}
	time.Sleep(20 * time.Millisecond)
	rep.Eval()
	cs := map[string]any{"limit_ns": int64(L), "retries": retries, "blocking": blocking}
	if blocking && (!errors.Is(err, timeout.ErrExceeded) || timedOutApps.Load() != apps.Load() || sawCancel.Load() != apps.Load()) {
		rep.Violate(idx, "C07/blocking-function-not-timed-out", fmt.Sprintf("Timeout with limit %v (already passed) around a function that only returns on cancellation, %d retries: result %v, %d of %d applications ended in ErrExceeded, the function observed cancellation %d times", L, retries, err, timedOutApps.Load(), apps.Load(), sawCancel.Load()), cs)
		return
	}
	if calls.Load() != timedOutApps.Load() {
		rep.Violate(idx, "C07/listener-count", fmt.Sprintf("Timeout with limit %v (already passed), %d retries: %d applications ended in ErrExceeded but OnTimeoutExceeded was called %d times (result %v)", L, retries, timedOutApps.Load(), calls.Load(), err), cs)
		return
	}
	if timedOutApps.Load() > 0 {
		rep.Count("non_positive_limit_timeouts", 1)
		rep.Distinct(fmt.Sprintf("nonpos|%d|%d|%v", L, retries, blocking))
	}
}
