package checks

import (
	"context"
	"errors"
	"fmt"
	"math/rand/v2"
	"strings"
	"sync"
	"sync/atomic"
	"time"

	"github.com/failsafe-go/failsafe-go"
	"github.com/failsafe-go/failsafe-go/bulkhead"
	"github.com/failsafe-go/failsafe-go/circuitbreaker"
	"github.com/failsafe-go/failsafe-go/common"
	"github.com/failsafe-go/failsafe-go/fallback"
	"github.com/failsafe-go/failsafe-go/hedgepolicy"
	"github.com/failsafe-go/failsafe-go/ratelimiter"
	"github.com/failsafe-go/failsafe-go/retrypolicy"
	"github.com/failsafe-go/failsafe-go/timeout"

	"verifharness/vk"
)

func init() { register("C08", checkC08) }

const c08LongDelay = 3 * time.Second

type c08Case struct {
	Comp        string `json:"composition"`
	Source      string `json:"source"`                 // ctx | deadline | timeout | async
	CustomCause bool   `json:"custom_cause,omitempty"` // ctx/deadline built with context.With*Cause and a caller-defined cause
	Async       bool   `json:"async"`
	Trigger     string `json:"trigger"` // before | fn.enter | sched | fn.exit | time
	K           int    `json:"k"`
	Micro       int64  `json:"micro_delay_ns"`
	FailN       int    `json:"fail_n"`
	BlockAt     int    `json:"block_at"`
	LongDelayAt int    `json:"long_delay_after_attempt"`
	DeadlineNs  int64  `json:"deadline_ns,omitempty"`
}

var c08Comps = []string{"retry", "retry", "retry>cb", "retry>bh", "fallback>retry", "retry>fallback", "hedge", "retry>hedge", "hedge>retry", "rl!>retry", "retry>rl!", "bh!>retry", "retry>bh!", "rl!", "hedge~", "retry>hedge~", "T>retry", "retry>T", "retry>T"}

func genC08(r *rand.Rand) c08Case {
	cs := c08Case{Comp: c08Comps[r.IntN(len(c08Comps))], Source: vk.Pick(r, "ctx", "ctx", "deadline", "timeout", "async", "async")}
	cs.Async = cs.Source == "async" || r.IntN(3) == 0
	cs.CustomCause = r.IntN(4) == 0
	cs.FailN = r.IntN(3)
	cs.Micro = int64(r.IntN(200)) * 1000
	waiting := strings.Contains(cs.Comp, "!")
	switch r.IntN(8) {
	case 7:
		// synchronously from the retry policy's OnRetry listener: after the retry was initialised, before whatever the retry
		// policy wraps (a Timeout, a hedge policy, the function) sets up the next attempt
		cs.Trigger = "onretry"
		cs.K = 1 + r.IntN(max(cs.FailN, 1))
		if cs.FailN == 0 {
			cs.FailN = 1
		}
	case 6:
		// synchronously from inside the retry policy's OnFailure listener: between the attempt's return and RecordResult
		cs.Trigger = "onfailure"
		cs.K = 1 + r.IntN(max(cs.FailN, 1))
		if cs.FailN == 0 {
			cs.FailN = 1
		}
		cs.LongDelayAt = cs.K
	case 0:
		cs.Trigger = "before"
	case 1, 2:
		cs.Trigger = "fn.enter"
		cs.K = 1 + r.IntN(cs.FailN+1)
		cs.BlockAt = cs.K
	case 3:
		cs.Trigger = "sched"
		cs.K = 1 + r.IntN(max(cs.FailN, 1))
		if cs.FailN == 0 {
			cs.FailN = 1
		}
		cs.LongDelayAt = cs.K
	case 4:
		cs.Trigger = "fn.exit"
		cs.K = 1 + r.IntN(cs.FailN+1)
		if cs.K <= cs.FailN {
			cs.LongDelayAt = cs.K
		}
	default:
		cs.Trigger = "time"
		if !waiting {
			cs.BlockAt = 1 + r.IntN(cs.FailN+1)
		}
	}
	if waiting && cs.Trigger != "before" {
		cs.Trigger = "time" // the execution waits inside the limiter or bulkhead; nothing signals that
		cs.Micro = int64(100+r.IntN(2000)) * 1000
	}
	if cs.Comp == "rl!" {
		cs.FailN, cs.BlockAt, cs.LongDelayAt = 0, 0, 0
	}
	if strings.Contains(cs.Comp, "~") {
		// a function that ignores cancellation for 6ms under a hedge policy that hedges every 2ms: the cancellation lands
		// while the policy waits out a hedge delay with no result yet
		cs.FailN, cs.BlockAt, cs.LongDelayAt = 0, 0, 0
		if cs.Trigger != "before" {
			cs.Trigger = "time"
			cs.Micro = int64(200+r.IntN(1500)) * 1000
		}
		if cs.Source == "deadline" || cs.Source == "timeout" {
			cs.Source = "ctx"
			cs.Async = r.IntN(3) == 0
		}
	}
	if strings.HasPrefix(cs.Comp, "hedge") && cs.Comp != "hedge>retry" || cs.Comp == "hedge" {
		// a hedge alone returns the first result: no retry delay to land in
		if cs.Trigger == "sched" {
			cs.Trigger = "fn.enter"
			cs.K, cs.BlockAt, cs.LongDelayAt = 1, 1, 0
		}
	}
	if (cs.Trigger == "onfailure" || cs.Trigger == "onretry") && (cs.Source == "deadline" || cs.Source == "timeout" || !strings.Contains(cs.Comp, "retry")) {
		cs.Trigger = "sched"
		cs.LongDelayAt = cs.K
	}
	if cs.Source == "timeout" && cs.Trigger == "before" {
		cs.Trigger = "time"
		cs.BlockAt = 1
	}
	if cs.Source == "deadline" || cs.Source == "timeout" {
		cs.DeadlineNs = int64(200+r.IntN(3000)) * 1000
		if cs.Trigger == "before" {
			cs.DeadlineNs = -1
		} else if cs.BlockAt == 0 && cs.LongDelayAt == 0 && !waiting {
			cs.BlockAt = 1 + r.IntN(cs.FailN+1) // something must still be going on when the deadline passes
		}
	}
	return cs
}

// c08Obs is what one run of a scenario showed.
type c08Obs struct {
	res           int
	err           error
	enters        []int64 // global sequence numbers of function entries
	markerSeq     int64   // sequence number taken after the cancellation was issued/observed (0: never)
	markerAt      time.Time
	startAt       time.Time
	doneAt        time.Time
	fallbackCalls int64
	blockedUnseen bool // a blocking attempt never observed the cancellation
	doneStats     string
	doneIdentity  bool
	entersAfter   int
	sawWait       bool
}

var c08Seq atomic.Int64

// c08Run runs the scenario; twin=true runs it without any cancellation, delays or waits (what the execution completes
// with when left alone).
func c08Run(cs c08Case, twin bool) *c08Obs {
	o := &c08Obs{}
	var mu sync.Mutex
	var trigger = make(chan struct{})
	var once sync.Once
	fire := func() { once.Do(func() { close(trigger) }) }
	var fnCount, schedCount atomic.Int64
	value := 424200 + cs.FailN

	// policies
	rb := retrypolicy.Builder[int]().WithMaxRetries(4).WithDelayFunc(func(e failsafe.ExecutionAttempt[int]) time.Duration {
		if !twin && cs.LongDelayAt != 0 && e.Attempts() == cs.LongDelayAt {
			return c08LongDelay
		}
		return 0
	}).OnRetryScheduled(func(e failsafe.ExecutionScheduledEvent[int]) {
		if int(schedCount.Add(1)) == cs.K && cs.Trigger == "sched" {
			fire()
		}
	})
	var failCount atomic.Int64
	var syncCancel func()
	rb.OnFailure(func(failsafe.ExecutionEvent[int]) {
		if int(failCount.Add(1)) == cs.K && cs.Trigger == "onfailure" && !twin && syncCancel != nil {
			syncCancel()
		}
	})
	var retryCount atomic.Int64
	rb.OnRetry(func(failsafe.ExecutionEvent[int]) {
		if int(retryCount.Add(1)) == cs.K && cs.Trigger == "onretry" && !twin && syncCancel != nil {
			syncCancel()
		}
	})
	retry := rb.Build()
	cb := circuitbreaker.Builder[int]().WithFailureThreshold(50).Build()
	fbOuter := fallback.BuilderWithFunc[int](func(failsafe.Execution[int]) (int, error) {
		atomic.AddInt64(&o.fallbackCalls, 1)
		return -1, nil
	}).Build()
	fbInner := fallback.BuilderWithFunc[int](func(failsafe.Execution[int]) (int, error) {
		atomic.AddInt64(&o.fallbackCalls, 1)
		return -1, nil
	}).HandleErrors(errE2).Build()
	hedge := hedgepolicy.BuilderWithDelay[int](c08LongDelay).WithMaxHedges(1).Build()
	hedgeQuick := hedgepolicy.BuilderWithDelay[int](2 * time.Millisecond).WithMaxHedges(2).Build()
	bhFree := bulkhead.With[int](4)
	bhFull := bulkhead.Builder[int](1).WithMaxWaitTime(c08LongDelay).Build()
	rlInterval := time.Second
	if twin {
		rlInterval = time.Microsecond
	}
	rl := ratelimiter.SmoothBuilderWithMaxRate[int](rlInterval).WithMaxWaitTime(c08LongDelay).Build()
	if !twin {
		bhFull.TryAcquirePermit()
		rl.TryAcquirePermit() // the next permit is a second away
	}
	var pols []failsafe.Policy[int]
	for _, p := range strings.Split(cs.Comp, ">") {
		switch p {
		case "retry":
			pols = append(pols, retry)
		case "cb":
			pols = append(pols, cb)
		case "bh":
			pols = append(pols, bhFree)
		case "bh!":
			pols = append(pols, bhFull)
		case "rl!":
			pols = append(pols, rl)
		case "hedge":
			pols = append(pols, hedge)
		case "hedge~":
			pols = append(pols, hedgeQuick)
		case "T": // a Timeout that never expires: what is inside runs on the Timeout's child execution
			pols = append(pols, timeout.With[int](30*time.Second))
		case "fallback":
			if len(pols) == 0 {
				pols = append(pols, fbOuter)
			} else {
				pols = append(pols, fbInner)
			}
		}
	}
	mark := func() {
		mu.Lock()
		if o.markerSeq == 0 {
			o.markerSeq = c08Seq.Add(1)
			o.markerAt = time.Now()
		}
		mu.Unlock()
	}
	ctx := context.Background()
	cancelCtx := func() {}
	if !twin {
		switch cs.Source {
		case "ctx":
			if cs.CustomCause {
				// the caller attaches its own cause: the execution must still report context.Canceled (ctx.Err())
				c2, c := context.WithCancelCause(ctx)
				ctx, cancelCtx = c2, func() { c(errCustomCause) }
				break
			}
			var c context.CancelFunc
			ctx, c = context.WithCancel(ctx)
			cancelCtx = c
		case "deadline":
			var c context.CancelFunc
			switch {
			case cs.DeadlineNs < 0 && cs.CustomCause:
				ctx, c = context.WithDeadlineCause(ctx, time.Now().Add(-time.Second), errCustomCause)
			case cs.DeadlineNs < 0:
				ctx, c = context.WithDeadline(ctx, time.Now().Add(-time.Second))
			case cs.CustomCause:
				ctx, c = context.WithTimeoutCause(ctx, time.Duration(cs.DeadlineNs), errCustomCause)
			default:
				ctx, c = context.WithTimeout(ctx, time.Duration(cs.DeadlineNs))
			}
			defer c()
			go func(c context.Context) { <-c.Done(); mark() }(ctx)
		case "timeout":
			probe := &probePolicy{before: func(exec failsafe.Execution[int]) any {
				go func() { <-exec.Canceled(); mark() }()
				return nil
			}}
			pols = append([]failsafe.Policy[int]{timeout.With[int](time.Duration(cs.DeadlineNs)), probe}, pols...)
		}
	}
	fn := func(exec failsafe.Execution[int]) (int, error) {
		k := int(fnCount.Add(1))
		s := c08Seq.Add(1)
		mu.Lock()
		o.enters = append(o.enters, s)
		mu.Unlock()
		if !twin && cs.Trigger == "fn.enter" && k == cs.K {
			fire()
		}
		if strings.Contains(cs.Comp, "~") {
			time.Sleep(6 * time.Millisecond) // ignores cancellation
			return value, nil
		}
		if !twin && k == cs.BlockAt {
			select {
			case <-exec.Canceled():
			case <-time.After(10 * time.Second):
				o.blockedUnseen = true
			}
			return 0, errE2
		}
		if !twin && cs.Trigger == "fn.exit" && k == cs.K {
			fire()
		}
		if k <= cs.FailN {
			return 0, errE1
		}
		return value, nil
	}
	ex := failsafe.NewExecutor[int](pols...).WithContext(ctx).OnDone(func(e failsafe.ExecutionDoneEvent[int]) {
		o.doneStats = fmt.Sprintf("attempts=%d retries=%d hedges=%d executions=%d", e.Attempts(), e.Retries(), e.Hedges(), e.Executions())
		o.doneIdentity = e.Attempts() == 1+e.Retries()+e.Hedges()
	})
	var ar failsafe.ExecutionResult[int]
	arReady := make(chan struct{}) // the async runner may reach a listener before the caller has the ExecutionResult
	doCancel := func() {
		switch cs.Source {
		case "ctx":
			cancelCtx()
			mark()
		case "async":
			<-arReady
			ar.Cancel()
			mark()
		}
	}
	syncCancel = doCancel
	if !twin && cs.Trigger == "before" && cs.Source == "ctx" {
		doCancel()
	}
	ctrlDone := make(chan struct{})
	o.startAt = time.Now()
	if cs.Async {
		ar = ex.GetWithExecutionAsync(fn)
	}
	close(arReady)
	if !twin && cs.Trigger != "onfailure" && cs.Trigger != "onretry" && (cs.Source == "ctx" && cs.Trigger != "before" || cs.Source == "async") {
		go func() {
			defer close(ctrlDone)
			if cs.Trigger != "before" {
				if cs.Trigger == "time" {
					select {
					case <-trigger:
					case <-time.After(time.Duration(cs.Micro)):
					}
				} else {
					select {
					case <-trigger:
						time.Sleep(time.Duration(cs.Micro))
					case <-time.After(300 * time.Millisecond): // the trigger point was never reached: cancel anyway
					}
				}
			}
			doCancel()
		}()
	} else {
		close(ctrlDone)
	}
	if cs.Async {
		o.res, o.err = ar.Get()
	} else {
		o.res, o.err = ex.GetWithExecution(fn)
	}
	o.doneAt = time.Now()
	<-ctrlDone
	// snapshot under the lock: watcher goroutines may still deliver a (late, hence ignored) marker afterwards
	mu.Lock()
	snap := &c08Obs{res: o.res, err: o.err, enters: append([]int64(nil), o.enters...), markerSeq: o.markerSeq, markerAt: o.markerAt, startAt: o.startAt, doneAt: o.doneAt,
		fallbackCalls: atomic.LoadInt64(&o.fallbackCalls), blockedUnseen: o.blockedUnseen, doneStats: o.doneStats, doneIdentity: o.doneIdentity}
	mu.Unlock()
	for _, s := range snap.enters {
		if snap.markerSeq != 0 && s > snap.markerSeq {
			snap.entersAfter++
		}
	}
	return snap
}

func checkC08(rep *vk.Report) {
	rep.Rule = "scenario = composition containing a retry or hedge policy (plus breaker, free or full bulkhead, exhausted rate limiter, fallback outside or inside) x cancellation source (context cancel, context deadline, enclosing Timeout, async ExecutionResult.Cancel) x event-triggered firing point (before the call, on the k-th function entry with the function then blocking, on the k-th OnRetryScheduled i.e. inside a 3s retry delay, at the k-th function exit i.e. between recording and the next attempt, synchronously from the k-th OnFailure or OnRetry listener of the retry policy (also with a never-expiring Timeout inside or outside the retry policy), after a micro delay while waiting for a limiter/bulkhead permit) x sync/async, with yield points between Cancel's two steps and before InitializeRetry perturbed. Each scenario is also run un-cancelled with zero delays (twin). Oracles: result is the cause's error (errors.Is) or exactly the twin's result; no fallback invocation; <=1 function entry after the cancel marker (taken after cancel returned / by a watcher on Done); blocking attempts observe the cancellation; completion earlier than marker + the wait being interrupted (3s delay, 1s limiter, 3s bulkhead). Plus Retry(Hedge(fn)) rounds that really hedge and fail, cancelled (context, context with a custom cause, async Cancel) inside the following 3s retry delay: the caller must get the cause. Plus Retry(Timeout(fn)) whose first attempt times out and is retried, cancelled while the second attempt runs within its limit: the caller gets the cancellation's cause, not the earlier ErrExceeded. Plus a high-volume stress without yield hooks: Cancel at PRNG instants on endlessly retrying async executions must always give ErrExecutionCanceled. Non-trivial: the cancellation landed before completion; distinct by (composition, source, trigger, k, async, where it landed)."
	rep.Assumptions = []string{
		"the cancel marker is never earlier than the true cancellation instant, so counting later function entries cannot over-count",
		"promptness is judged only against the configured waits: completion >= marker + wait is a violation, between half and full is inconclusive",
		"scripts end in success within the retry budget, so a fallback's output is never a legitimate result",
		"yield hooks result.cancel.between / retry.beforeInitializeRetry / async.* (verif tag) only perturb scheduling",
	}
	vk.StartHeartbeat()
	installYields(rep.Seed)
	defer failsafe.VerifSetYield(nil)
	n := scale(rep, 4000, 300000)
	vk.Parallel(n, 32, func(idx int) {
		if rep.Skip(idx) {
			return
		}
		c08Scenario(rep, idx, "C08")
	})
	vk.Parallel(scale(rep, 600, 30000), 32, func(idx int) {
		if rep.Skip(1000000 + idx) {
			return
		}
		c08AfterHedgedRound(rep, 1000000+idx)
	})
	vk.Parallel(scale(rep, 300, 15000), 32, func(idx int) {
		if rep.Skip(2000000 + idx) {
			return
		}
		c08AfterTimedOutAttempt(rep, 2000000+idx, "C08")
	})
	failsafe.VerifSetYield(nil)
	cancelStress(rep, "C08", 50000000, scale(rep, 30000, 500000))
	reportYields(rep)
	for _, cl := range []string{"landed_inside_function", "landed_in_retry_delay", "landed_in_policy_wait", "landed_at_function_exit", "landed_in_failure_listener", "landed_after_completion", "landed_before_start", "landed_in_retry_listener", "cancelled_in_retry_delay_after_hedged_round", "cancelled_in_attempt_after_timed_out_attempt"} {
		rep.Require(cl, 10)
	}
}

var errCustomCause = errors.New("caller-defined cancellation cause")

func c08Cause(cs c08Case) error {
	switch cs.Source {
	case "ctx":
		return context.Canceled
	case "deadline":
		return context.DeadlineExceeded
	case "timeout":
		return timeout.ErrExceeded
	}
	return failsafe.ErrExecutionCanceled
}

func c08Scenario(rep *vk.Report, idx int, prop string) {
	r := vk.Rng(rep.Seed, "C08", idx)
	cs := genC08(r)
	tw := c08Run(cs, true)
	var o *c08Obs
	fin := make(chan struct{})
	go func() { o = c08Run(cs, false); close(fin) }()
	select {
	case <-fin:
	case <-time.After(30 * time.Second):
		st := allStacks()
		rep.Abort()
		rep.Violate(idx, prop+"/never-completed", fmt.Sprintf("execution did not complete within 30s of being cancelled (every wait in the scenario is at most 3s) (case %+v)", cs), map[string]any{"case": cs, "stacks": st[:min(len(st), 8000)]})
		return
	}
	rep.Eval()
	viol := func(sig, msg string) {
		rep.Violate(idx, prop+"/"+sig, msg+fmt.Sprintf(" (case %+v; result (%d,%v); twin (%d,%v); entries %d, after marker %d; done event %s)", cs, o.res, o.err, tw.res, tw.err, len(o.enters), o.entersAfter, o.doneStats), cs)
	}
	if prop == "C17" {
		if !o.doneIdentity {
			viol("attempts-identity-after-cancellation", "done event violates Attempts == 1 + Retries + Hedges")
		}
		if o.markerSeq != 0 && !o.markerAt.After(o.doneAt) {
			rep.Distinct(fmt.Sprintf("cancel|%s|%s|%s|%d", cs.Comp, cs.Source, cs.Trigger, cs.K))
		}
		return
	}
	cause := c08Cause(cs)
	sameAsTwin := o.res == tw.res && edesc(o.err) == edesc(tw.err)
	isCause := o.err != nil && errors.Is(o.err, cause)
	if !sameAsTwin && !isCause {
		sig := "wrong-result"
		if cs.Source == "async" && errors.Is(o.err, context.Canceled) {
			sig = "async-cancel-reported-as-context-canceled"
			if strings.HasPrefix(cs.Comp, "bh!") && len(o.enters) == 0 {
				sig = "async-cancel-during-bulkhead-wait-reported-as-context-canceled"
			}
		}
		viol(sig, fmt.Sprintf("caller received neither the cause (%v) nor the un-cancelled result", cause))
		return
	}
	if o.fallbackCalls != 0 || o.res == -1 {
		viol("fallback-applied-under-cancellation", fmt.Sprintf("fallback function invoked %d times", o.fallbackCalls))
		return
	}
	if o.blockedUnseen {
		viol("function-never-saw-cancellation", "a blocking attempt did not observe the cancellation within 10s")
		return
	}
	if o.entersAfter > 1 {
		viol("attempts-after-cancellation", fmt.Sprintf("%d function entries after the cancellation", o.entersAfter))
		return
	}
	landed := "after_completion"
	if isCause && !sameAsTwin {
		wait := c08LongDelay
		if strings.Contains(cs.Comp, "rl!") {
			wait = time.Second
		}
		// every wait of the scenario (3s retry/hedge delay, 1s limiter wait, 3s bulkhead wait) starts after the call began and
		// would end on its own no earlier than start+wait: an execution that completes at or after that instant waited it out
		if stall := vk.StalledBetween(o.startAt, o.doneAt); o.markerSeq != 0 && stall >= 250*time.Millisecond && o.doneAt.Sub(o.markerAt) >= wait/2 {
			// this process was not scheduled for a long stretch of the scenario: elapsed time says nothing about the library
			rep.Count("promptness_not_judged_process_stalled", 1)
		} else if total := o.doneAt.Sub(o.startAt); o.markerSeq != 0 && total >= wait {
			viol("waited-out-the-delay", fmt.Sprintf("execution was cancelled %v after it began but completed only %v after it began; the wait it was in (%v) would have ended on its own by then", o.markerAt.Sub(o.startAt), total, wait))
			return
		}
		if late := o.doneAt.Sub(o.markerAt); vk.StalledBetween(o.startAt, o.doneAt) >= 250*time.Millisecond {
			// not judged (see above)
		} else if o.markerSeq != 0 && late >= wait {
			viol("waited-out-the-delay", fmt.Sprintf("execution completed %v after the cancellation; the wait it was in is %v", late, wait))
			return
		} else if o.markerSeq != 0 && late >= wait/2 {
			rep.Inconclusive(fmt.Sprintf("C08 scenario %d completed %v after the cancellation (between half and the full wait)", idx, late))
		}
		switch {
		case len(o.enters) == 0 && strings.Contains(cs.Comp, "!"):
			landed = "in_policy_wait"
			if cs.Trigger == "before" {
				landed = "before_start"
			}
		case len(o.enters) == 0:
			landed = "before_start"
		case cs.Trigger == "sched":
			landed = "in_retry_delay"
		case cs.Trigger == "onfailure":
			landed = "in_failure_listener"
		case cs.Trigger == "onretry":
			landed = "in_retry_listener"
		case cs.Trigger == "fn.exit":
			landed = "at_function_exit"
		case strings.Contains(cs.Comp, "!") && cs.BlockAt == 0:
			landed = "in_policy_wait"
		default:
			landed = "inside_function"
		}
	}
	rep.Count("landed_"+landed, 1)
	if landed != "after_completion" {
		rep.Distinct(fmt.Sprintf("%s|%s|%s|%d|%v|%s", cs.Comp, cs.Source, cs.Trigger, cs.K, cs.Async, landed))
		if rep.WantSample() {
			rep.Sample(map[string]any{"case": cs, "result": fmt.Sprintf("(%d,%v)", o.res, o.err), "twin": fmt.Sprintf("(%d,%v)", tw.res, tw.err), "landed": landed, "function_entries": len(o.enters), "entries_after_cancel": o.entersAfter})
		}
	}
}

var _ = common.PolicyResult[int]{}
