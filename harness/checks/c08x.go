package checks

import (
	"context"
	"errors"
	"fmt"
	"sync/atomic"
	"time"

	"github.com/failsafe-go/failsafe-go"
	"github.com/failsafe-go/failsafe-go/bulkhead"
	"github.com/failsafe-go/failsafe-go/fallback"
	"github.com/failsafe-go/failsafe-go/hedgepolicy"
	"github.com/failsafe-go/failsafe-go/retrypolicy"
	"github.com/failsafe-go/failsafe-go/timeout"

	"verifharness/vk"
)

// c08AfterHedgedRound: Retry(Hedge(fn)) where the first round really hedges (the function takes longer than the hedge
// delay and then fails), the failing result is accepted, the losing attempt is swept, and the cancellation arrives in the
// retry delay that follows. Whatever the hedge policy did to its losers must not leak into what the caller is told: the
// execution had not completed, so the caller must get the cancellation cause.
func c08AfterHedgedRound(rep *vk.Report, idx int) {
	r := vk.Rng(rep.Seed, "C08h", idx)
	source := vk.Pick(r, "ctx", "ctx-cause", "async", "deadline", "deadline")
	inner := vk.Pick(r, "", "", "retry", "fallback", "bulkhead") // a policy inside the hedge, which sees its attempt being cancelled as a loser
	micro := time.Duration(r.IntN(600)) * time.Microsecond
	maxHedges := 1 + r.IntN(2)
	cancelMatching := r.IntN(3) == 0 // with explicit cancel conditions the failing result is accepted only as the final one
	hb := hedgepolicy.BuilderWithDelay[int](time.Millisecond).WithMaxHedges(maxHedges)
	if cancelMatching {
		hb.CancelIf(func(_ int, err error) bool { return err == nil })
	}
	var fired atomic.Bool
	trigger := make(chan struct{})
	rp := retrypolicy.Builder[int]().WithMaxRetries(3).WithDelay(c08LongDelay).OnRetryScheduled(func(failsafe.ExecutionScheduledEvent[int]) {
		if fired.CompareAndSwap(false, true) {
			close(trigger)
		}
	}).Build()
	fn := func(exec failsafe.Execution[int]) (int, error) {
		select {
		case <-exec.Canceled():
		case <-time.After(4 * time.Millisecond):
		}
		return 0, errE1
	}
	ctx := context.Background()
	cancel := func() {}
	switch source {
	case "ctx":
		var c context.CancelFunc
		ctx, c = context.WithCancel(ctx)
		cancel = c
	case "ctx-cause":
		c2, c := context.WithCancelCause(ctx)
		ctx, cancel = c2, func() { c(errCustomCause) }
	case "deadline":
		// expires on its own inside the 3s retry delay (the round takes a few ms)
		var c context.CancelFunc
		ctx, c = context.WithTimeout(ctx, 80*time.Millisecond)
		defer c()
	}
	defer cancel()
	var hedges int
	pols := []failsafe.Policy[int]{rp, hb.Build()}
	switch inner {
	case "retry":
		pols = append(pols, retrypolicy.Builder[int]().WithMaxRetries(1).Build())
	case "fallback":
		pols = append(pols, fallback.BuilderWithResult[int](-1).HandleErrors(errE3).Build())
	case "bulkhead":
		pols = append(pols, bulkhead.With[int](8))
	}
	ex := failsafe.NewExecutor[int](pols...).WithContext(ctx).OnDone(func(e failsafe.ExecutionDoneEvent[int]) { hedges = e.Hedges() })
	async := source == "async" || r.IntN(3) == 0
	var ar failsafe.ExecutionResult[int]
	arReady := make(chan struct{})
	go func() {
		select {
		case <-trigger:
		case <-time.After(2 * time.Second):
			return // the retry delay was never reached (not judged below)
		}
		time.Sleep(micro)
		switch source {
		case "async":
			<-arReady
			ar.Cancel()
		case "deadline":
		default:
			cancel()
		}
	}()
	t0 := time.Now()
	var err error
	if async {
		ar = ex.GetWithExecutionAsync(fn)
		close(arReady)
		_, err = ar.Get()
	} else {
		close(arReady)
		_, err = ex.GetWithExecution(fn)
	}
	took := time.Since(t0)
	rep.Eval()
	if !fired.Load() {
		rep.Count("hedged_round_scenarios_without_retry_delay", 1)
		return
	}
	want := context.Canceled
	switch source {
	case "async":
		want = failsafe.ErrExecutionCanceled
	case "deadline":
		want = context.DeadlineExceeded
	}
	cs := map[string]any{"source": source, "inside_hedge": inner, "micro_ns": int64(micro), "max_hedges": maxHedges, "cancel_conditions": cancelMatching, "async": async}
	if !errors.Is(err, want) {
		rep.Violate(idx, "C08/wrong-result-after-hedged-round", fmt.Sprintf("Retry(Hedge(%s(fn))): first round hedged (%d hedges started) and failed, cancellation (%s) arrived in the 3s retry delay: caller received %v, want %v (took %v)", inner, hedges, source, err, want, took), cs)
		return
	}
	if took >= c08LongDelay && vk.StalledBetween(t0, t0.Add(took)) < 250*time.Millisecond {
		rep.Violate(idx, "C08/waited-out", fmt.Sprintf("Retry(Hedge(fn)) cancelled (%s) in the 3s retry delay after a hedged round completed only after %v", source, took), cs)
		return
	}
	if hedges > 0 {
		rep.Count("cancelled_in_retry_delay_after_hedged_round", 1)
		rep.Distinct(fmt.Sprintf("afterhedge|%s|%s|%d|%v|%v", source, inner, maxHedges, cancelMatching, async))
	}
}

// c08AfterTimedOutAttempt: Retry(Timeout(fn)) whose first attempt really times out and is retried; the cancellation then
// arrives while the second attempt runs (well inside its limit). What the earlier Timeout did must not leak into what the
// caller is told: the caller gets the cause of the cancellation, not the first attempt's ErrExceeded.
func c08AfterTimedOutAttempt(rep *vk.Report, idx int, prop string) {
	r := vk.Rng(rep.Seed, "C08t", idx)
	source := vk.Pick(r, "ctx", "ctx", "async")
	L := time.Duration(vk.Pick(r, 5, 10, 20)) * time.Millisecond
	var timeouts, calls atomic.Int64
	second := make(chan struct{})
	T := timeout.Builder[int](L).OnTimeoutExceeded(func(failsafe.ExecutionDoneEvent[int]) { timeouts.Add(1) }).Build()
	rp := retrypolicy.Builder[int]().WithMaxRetries(2).Build()
	fn := func(exec failsafe.Execution[int]) (int, error) {
		if calls.Add(1) == 2 {
			close(second)
		}
		<-exec.Canceled() // attempt 1: until its Timeout fires; attempt 2: until the cancellation (or, on a stalled machine, its Timeout)
		return 0, errE2
	}
	ctx := context.Background()
	cancel := func() {}
	if source != "async" {
		var c context.CancelFunc
		ctx, c = context.WithCancel(ctx)
		cancel = c
	}
	defer cancel()
	ex := failsafe.NewExecutor[int](rp, T).WithContext(ctx)
	async := source == "async" || r.IntN(3) == 0
	var ar failsafe.ExecutionResult[int]
	arReady := make(chan struct{})
	go func() {
		select {
		case <-second:
		case <-time.After(5 * time.Second):
			return
		}
		if source == "async" {
			<-arReady
			ar.Cancel()
		} else {
			cancel()
		}
	}()
	var err error
	if async {
		ar = ex.GetWithExecutionAsync(fn)
		close(arReady)
		_, err = ar.Get()
	} else {
		close(arReady)
		_, err = ex.GetWithExecution(fn)
	}
	time.Sleep(L + 10*time.Millisecond)
	rep.Eval()
	want := context.Canceled
	if source == "async" {
		want = failsafe.ErrExecutionCanceled
	}
	cs := map[string]any{"source": source, "limit_ns": int64(L), "async": async}
	if timeouts.Load() != 1 || calls.Load() != 2 {
		// the second attempt timed out as well before the cancellation was delivered (stall), or never started
		rep.Count("timed_out_attempt_scenarios_disturbed", 1)
		return
	}
	if !errors.Is(err, want) {
		rep.Violate(idx, prop+"/stale-timeout-result-after-retry", fmt.Sprintf("Retry(Timeout %v (fn)): attempt 1 timed out and was retried, the execution was cancelled (%s) while attempt 2 ran within its limit (OnTimeoutExceeded fired once): caller received %v, want %v", L, source, err, want), cs)
		return
	}
	rep.Count("cancelled_in_attempt_after_timed_out_attempt", 1)
	rep.Distinct(fmt.Sprintf("aftertimeout|%s|%d|%v", source, L, async))
}
