package checks

import (
	"fmt"
	"math/rand/v2"
	"reflect"
	"strings"
	"sync"
	"sync/atomic"
	"time"

	"github.com/failsafe-go/failsafe-go"
	"github.com/failsafe-go/failsafe-go/common"
	"github.com/failsafe-go/failsafe-go/fallback"
	"github.com/failsafe-go/failsafe-go/hedgepolicy"
	"github.com/failsafe-go/failsafe-go/retrypolicy"
	"github.com/failsafe-go/failsafe-go/timeout"

	"verifharness/vk"
)

func init() { register("C09", checkC09) }

type c09Attempt struct {
	Match bool    `json:"match"`
	Dur   float64 `json:"dur_over_delay"` // timing mode: duration as a multiple of the base delay; <0 = block until cancelled
}

type c09Case struct {
	MaxHedges int          `json:"max_hedges"`
	Delays    []int64      `json:"delays_ns"` // delay before hedge k (k = 1..); the last value repeats; 3600e9 = effectively never
	Cancel    string       `json:"cancel"`    // default | pred | nilerr | never | result7
	Mode      string       `json:"mode"`      // timing | gates
	Attempts  []c09Attempt `json:"attempts"`  // by order of function entry
	Order     []int        `json:"release_order,omitempty"`
	Placement string       `json:"placement"`
	Async     bool         `json:"async"`
}

type c09Run struct {
	k                int
	enter, exit      time.Time
	value            int
	err              error
	isHedge          bool
	exec             failsafe.Execution[int]
	statsBad         string
	cancelledAtEntry bool
	finishedNormally bool
}

func genC09(r *rand.Rand) c09Case {
	cs := c09Case{MaxHedges: r.IntN(5), Cancel: vk.Pick(r, "default", "pred", "pred", "nilerr", "never", "result7", "errtype"),
		Mode: vk.Pick(r, "timing", "gates", "gates"), Placement: vk.Pick(r, "H", "H", "Retry(H)", "Timeout(H)", "Fallback(H)", "H(Timeout)"), Async: r.IntN(4) == 0}
	base := vk.Pick(r, int64(1e6), 3e6)
	switch r.IntN(3) {
	case 0:
		cs.Delays = []int64{base}
	case 1:
		for i := 0; i < cs.MaxHedges; i++ {
			cs.Delays = append(cs.Delays, vk.Pick(r, base, 2*base, base/2, 3*base))
		}
		if len(cs.Delays) == 0 {
			cs.Delays = []int64{base}
		}
	default:
		// hedges up to j start quickly, afterwards effectively never
		j := r.IntN(cs.MaxHedges + 1)
		for i := 0; i < j; i++ {
			cs.Delays = append(cs.Delays, base)
		}
		cs.Delays = append(cs.Delays, 3600e9)
	}
	n := cs.MaxHedges + 1
	for i := 0; i < n; i++ {
		a := c09Attempt{Match: r.IntN(3) == 0, Dur: vk.Pick(r, 0, 0.3, 0.9, 1.1, 2.5)}
		cs.Attempts = append(cs.Attempts, a)
	}
	// how many attempts can ever start (a 1h delay stops the sequence)
	starts := n
	for i, d := range cs.Delays {
		if d > int64(time.Second) && i < cs.MaxHedges {
			starts = i + 1
			break
		}
	}
	if starts < n {
		// the policy would wait an hour for the next hedge unless a started attempt's result is accepted
		if cs.Cancel == "never" {
			cs.Cancel = "pred"
		}
		cs.Attempts[r.IntN(starts)].Match = true
	}
	if cs.Mode == "timing" && cs.Cancel != "never" && r.IntN(2) == 0 {
		// blockers: attempts before a finite matching one only return on cancellation
		w := r.IntN(starts)
		cs.Attempts[w].Match = true
		for i := 0; i < w; i++ {
			if r.IntN(2) == 0 {
				cs.Attempts[i].Dur = -1
				cs.Attempts[i].Match = false
			}
		}
		if cs.Cancel == "default" {
			for i := 0; i < w; i++ {
				cs.Attempts[i].Dur = -1 // under the default conditions any finished attempt is accepted
			}
		}
	}
	if cs.Mode == "gates" {
		cs.Order = r.Perm(n)
	}
	return cs
}

func (cs c09Case) delay(k int) time.Duration { // delay before hedge k (1-based)
	i := k - 1
	if i >= len(cs.Delays) {
		i = len(cs.Delays) - 1
	}
	return time.Duration(cs.Delays[i])
}

// matches reports whether an outcome satisfies the scenario's cancel conditions.
func (cs c09Case) matches(v int, err error) bool {
	switch cs.Cancel {
	case "default":
		return true
	case "pred":
		return v%10 == 7
	case "nilerr":
		return err == nil
	case "result7":
		return v == 7 && err == nil
	case "errtype": // the only condition configured is an error type
		return typeWalk(err, reflect.TypeOf(valErr{}))
	}
	return false
}

func checkC09(rep *vk.Report) {
	rep.Rule = "scenario = hedge policy (maxHedges 0-4; fixed delay, per-hedge delays from a delay function, or 'quick up to hedge j then 1h'; cancel conditions default/predicate/nil-error/exact-result/never) at a placement {alone, Retry(H), Timeout(H), Fallback(H), H(Timeout)}, sync/async; attempts either last a multiple of the delay or block, or (gates mode) all block on gates released in a chosen permutation; matching and non-matching outcomes carry unique values. A probe policy outside the hedge brackets each application. Oracles: <= maxHedges+1 function entries per application; k-th OnHedge no earlier than t0 + sum of the first k delays; no OnHedge event follows the return of an accepted result; the returned value was produced by an attempt with the same error; a matching result makes the call return while all other attempts are still blocked; without a match the call returns only after all maxHedges+1 attempts exited; at return every other started attempt is cancelled and the winner is not; a function entry after the return sees a cancelled context; exactly one attempt has IsHedge()==false and the number with true equals the OnHedge events; yield points in the hedge loop perturbed. Non-trivial: >=1 hedge started; distinct by (maxHedges, delays kind, cancel kind, mode, placement, completion order, winner index)."
	rep.Assumptions = []string{
		"A7: which non-matching result is returned is not judged beyond 'produced by an attempt after all finished'; 'no hedge after acceptance' is decided only where the next delay is 1h",
		"hedge timing is judged on the k-th OnHedge event (emitted by the policy's own loop), not on function entry order",
		"stable-state rule: other attempts only return on cancellation, so a call that has a matching result and does not return within 10s cannot return at all",
	}
	installYields(rep.Seed)
	defer failsafe.VerifSetYield(nil)
	n := scale(rep, 5000, 300000)
	vk.Parallel(n, 24, func(idx int) {
		if rep.Skip(idx) {
			return
		}
		c09Scenario(rep, idx, "C09")
	})
	vk.Parallel(scale(rep, 400, 20000), 24, func(i int) {
		if rep.Skip(50000000 + i) {
			return
		}
		c09RetryInsideHedge(rep, 50000000+i)
	})
	reportYields(rep)
	rep.Require("scenarios_with_hedges", 200)
	rep.Require("accepted_matching_result_while_others_blocked", 100)
	rep.Require("returned_final_non_matching_after_all_finished", 100)
	rep.Require("distinct_completion_orders_of_3_attempts", 6)
	rep.Require("hedge_timing_checked", 200)
}

var c09Vals atomic.Int64
var c09Perms sync.Map

// c09Scenario runs one hedge scenario. prop selects the reporting property: C09 judges everything; C17 only the
// statistics (IsHedge accounting, Attempts/Hedges identity in the done event and inside attempts).
func c09Scenario(rep *vk.Report, idx int, prop string) {
	r := vk.Rng(rep.Seed, "C09", idx)
	cs := genC09(r)
	n := cs.MaxHedges + 1
	var mu sync.Mutex
	var runs []*c09Run
	var hedgeTimes []time.Time
	var delaysReturned []time.Duration
	gates := make([]chan struct{}, n+2)
	for i := range gates {
		gates[i] = make(chan struct{})
	}
	var entered atomic.Int64
	type app struct {
		t0, t1 time.Time
		res    int
		err    error
	}
	var apps []app
	var dfCalls atomic.Int64
	hb := hedgepolicy.BuilderWithDelayFunc[int](func(e failsafe.ExecutionAttempt[int]) time.Duration {
		dfCalls.Add(1)
		k := e.Attempts() // hedge k is about to be scheduled when k attempts have been started
		d := cs.delay(k)
		mu.Lock()
		delaysReturned = append(delaysReturned, d)
		mu.Unlock()
		return d
	}).WithMaxHedges(cs.MaxHedges).OnHedge(func(e failsafe.ExecutionEvent[int]) {
		mu.Lock()
		hedgeTimes = append(hedgeTimes, time.Now())
		mu.Unlock()
	})
	switch cs.Cancel {
	case "pred":
		hb.CancelIf(func(v int, _ error) bool { return v%10 == 7 })
	case "nilerr":
		hb.CancelIf(func(_ int, e error) bool { return e == nil })
	case "never":
		hb.CancelIf(func(int, error) bool { return false })
	case "result7":
		hb.CancelOnResult(7)
	case "errtype":
		hb.CancelOnErrorTypes(valErr{})
	}
	H := hb.Build()
	if r.IntN(2) == 0 {
		// a policy is fixed when it is built: configuring the builder further (for another policy) must not change it
		hb.WithMaxHedges(cs.MaxHedges + 3).OnHedge(func(failsafe.ExecutionEvent[int]) {})
		_ = hb.Build()
	}
	probe := &probePolicy{
		before: func(failsafe.Execution[int]) any { return time.Now() },
		after: func(_ failsafe.Execution[int], tok any, pr *common.PolicyResult[int]) {
			mu.Lock()
			apps = append(apps, app{tok.(time.Time), time.Now(), pr.Result, pr.Error})
			mu.Unlock()
		},
	}
	var pols []failsafe.Policy[int]
	switch cs.Placement {
	case "H":
		pols = []failsafe.Policy[int]{probe, H}
	case "Retry(H)":
		pols = []failsafe.Policy[int]{retrypolicy.Builder[int]().WithMaxRetries(0).Build(), probe, H}
	case "Timeout(H)":
		pols = []failsafe.Policy[int]{timeout.With[int](time.Hour), probe, H}
	case "Fallback(H)":
		pols = []failsafe.Policy[int]{fallback.BuilderWithResult[int](-1).HandleErrors(errE3).Build(), probe, H}
	case "H(Timeout)":
		pols = []failsafe.Policy[int]{probe, H, timeout.With[int](time.Hour)}
	}
	base := time.Duration(cs.Delays[0])
	if base > time.Second {
		base = time.Millisecond
	}
	fn := func(exec failsafe.Execution[int]) (int, error) {
		k := int(entered.Add(1)) - 1
		run := &c09Run{k: k, enter: time.Now(), isHedge: exec.IsHedge(), exec: exec, cancelledAtEntry: exec.IsCanceled()}
		// inside an attempt: Attempts counts every attempt started so far, Hedges every hedge started so far; with
		// overlapping attempts these can only be bounded: hedges <= maxHedges, attempts >= 1 + hedges seen earlier
		if h, at := exec.Hedges(), exec.Attempts(); h > cs.MaxHedges || at < 1 || (exec.IsHedge() && h < 1) || at > 1+cs.MaxHedges+exec.Retries() {
			run.statsBad = fmt.Sprintf("attempt entry #%d saw Attempts=%d Hedges=%d Retries=%d IsHedge=%v with maxHedges=%d", k, at, h, exec.Retries(), exec.IsHedge(), cs.MaxHedges)
		}
		mu.Lock()
		runs = append(runs, run)
		mu.Unlock()
		a := c09Attempt{}
		if k < len(cs.Attempts) {
			a = cs.Attempts[k]
		}
		id := int(c09Vals.Add(1))
		v, e := 10*id+3, error(nil)
		if a.Match {
			v = 10*id + 7
		}
		switch cs.Cancel {
		case "nilerr":
			if !a.Match {
				e = fmt.Errorf("attempt-%d: %w", id, errE1)
			}
		case "result7":
			if a.Match {
				v = 7
			}
		case "errtype":
			e = fmt.Errorf("attempt-%d: %w", id, errE1)
			if a.Match {
				e = fmt.Errorf("attempt-%d: %w", id, valErr{id})
			}
		}
		fin := func(v int, e error, normal bool) (int, error) {
			mu.Lock()
			run.value, run.err, run.exit, run.finishedNormally = v, e, time.Now(), normal
			mu.Unlock()
			return v, e
		}
		if cs.Mode == "gates" {
			g := gates[min(k, len(gates)-1)]
			select {
			case <-g:
				return fin(v, e, true)
			case <-exec.Canceled():
				return fin(0, errE2, false)
			}
		}
		if a.Dur < 0 {
			<-exec.Canceled()
			return fin(0, errE2, false)
		}
		select {
		case <-time.After(time.Duration(a.Dur * float64(base))):
			return fin(v, e, true)
		case <-exec.Canceled():
			return fin(0, errE2, false)
		}
	}
	ex := failsafe.NewExecutor[int](pols...)
	var doneStats string
	ex = ex.OnDone(func(e failsafe.ExecutionDoneEvent[int]) {
		doneStats = fmt.Sprintf("%d/%d/%d", e.Attempts(), e.Hedges(), e.Retries())
		if e.Attempts() != 1+e.Hedges()+e.Retries() {
			doneStats += " IDENTITY-BROKEN"
		}
	})
	retC := make(chan struct{})
	var res int
	var err error
	go func() {
		defer close(retC)
		if cs.Async {
			res, err = ex.GetWithExecutionAsync(fn).Get()
		} else {
			res, err = ex.GetWithExecution(fn)
		}
	}()
	viol := func(sig, msg string) {
		if prop != "C09" && sig != "ishedge-accounting" && sig != "attempts-identity" {
			return
		}
		mu.Lock()
		defer mu.Unlock()
		rs := ""
		for _, ru := range runs {
			rs += fmt.Sprintf("[#%d hedge=%v exited=%v normal=%v value=%d err=%v cancelledNow=%v]", ru.k, ru.isHedge, !ru.exit.IsZero(), ru.finishedNormally, ru.value, ru.err, ru.exec.IsCanceled())
		}
		rep.Violate(idx, prop+"/"+sig, msg+fmt.Sprintf(" (case %+v; result (%d,%v); runs %s, OnHedge events %d, done event attempts/hedges/retries %s)", cs, res, err, rs, len(hedgeTimes), doneStats), cs)
	}
	returned := false
	stuck := false
	if cs.Mode == "gates" {
		// wait (bounded) until as many attempts entered as will ever start, then release in the chosen order
		expect := n
		for i, d := range cs.Delays {
			if d > int64(time.Second) && i < cs.MaxHedges {
				expect = i + 1
				break
			}
		}
		dl := time.Now().Add(3 * time.Second)
		for int(entered.Load()) < expect && time.Now().Before(dl) {
			time.Sleep(100 * time.Microsecond)
		}
		matchedReleased := false
		for _, k := range cs.Order {
			if k >= int(entered.Load()) {
				continue
			}
			close(gates[k])
			if k < len(cs.Attempts) {
				a := cs.Attempts[k]
				v := 3
				if a.Match {
					v = 7
				}
				var e error
				if cs.Cancel == "nilerr" && !a.Match {
					e = errE1
				}
				if cs.Cancel == "errtype" {
					e = errE1
					if a.Match {
						e = valErr{1}
					}
				}
				if cs.matches(v, e) {
					matchedReleased = true
				}
			}
			if matchedReleased {
				// a matching result has been produced: the call must return while every other attempt is still blocked
				select {
				case <-retC:
					returned = true
				case <-time.After(10 * time.Second):
					stuck = true
				}
				break
			}
			time.Sleep(time.Duration(r.IntN(300)) * time.Microsecond)
		}
		if stuck {
			st := allStacks()
			viol("matching-result-not-returned", "a matching result was produced and all other attempts only return on cancellation, but the call did not return within 10s: "+st[:min(len(st), 3000)])
			for _, g := range gates {
				select {
				case <-g:
				default:
					close(g)
				}
			}
			rep.Abort()
			return
		}
		if !returned {
			// no match among released attempts: if fewer than maxHedges+1 attempts started (1h delay) the call legitimately
			// keeps waiting for the remaining hedge; those scenarios end here by releasing nothing more and not judging the wait
			select {
			case <-retC:
				returned = true
			case <-time.After(2 * time.Second):
			}
		}
	} else {
		select {
		case <-retC:
			returned = true
		case <-time.After(20 * time.Second):
		}
	}
	rep.Eval()
	if !returned {
		// only legitimate when a 1h delay keeps the policy waiting for a hedge that never starts
		longWait := false
		for i, d := range cs.Delays {
			if d > int64(time.Second) && i < cs.MaxHedges {
				longWait = true
			}
		}
		if !longWait {
			viol("call-never-returned", "the hedged call did not return although every attempt finished or can only wait for cancellation")
			rep.Abort()
		} else {
			rep.Count("scenarios_left_waiting_for_1h_hedge", 1)
		}
		return
	}
	retAt := time.Now()
	mu.Lock()
	runsC := make([]*c09Run, len(runs))
	for i, ru := range runs {
		c := *ru // copy under the lock: losing attempts may still be finishing
		runsC[i] = &c
	}
	hts := append([]time.Time(nil), hedgeTimes...)
	appsC := append([]app(nil), apps...)
	mu.Unlock()
	if len(appsC) != 1 {
		viol("applications", fmt.Sprintf("%d hedge applications recorded for one execution", len(appsC)))
		return
	}
	a := appsC[0]
	if len(runsC) > n {
		viol("too-many-attempts", fmt.Sprintf("%d function entries, maxHedges+1 = %d", len(runsC), n))
		return
	}
	// hedge spacing
	var sum time.Duration
	for k, ht := range hts {
		sum += cs.delay(k + 1)
		rep.Count("hedge_timing_checked", 1)
		if ht.Sub(a.t0) < sum {
			viol("hedge-started-early", fmt.Sprintf("hedge %d started %v after the call began, the first %d delays sum to %v", k+1, ht.Sub(a.t0), k+1, sum))
			return
		}
	}
	if len(hts) > cs.MaxHedges {
		viol("too-many-attempts", fmt.Sprintf("%d OnHedge events, maxHedges %d", len(hts), cs.MaxHedges))
		return
	}
	// IsHedge accounting
	nh, nf := 0, 0
	for _, ru := range runsC {
		if ru.isHedge {
			nh++
		} else {
			nf++
		}
	}
	// entries can lag behind OnHedge (goroutine not yet scheduled), never exceed it
	if nf > 1 || nh > len(hts) || (len(runsC) == len(hts)+1 && nf != 1) {
		viol("ishedge-accounting", fmt.Sprintf("%d attempts saw IsHedge()==false and %d saw true for %d OnHedge events", nf, nh, len(hts)))
		return
	}
	if strings.Contains(doneStats, "IDENTITY-BROKEN") {
		viol("attempts-identity", "the done event violates Attempts == 1 + Hedges + Retries")
		return
	}
	for _, ru := range runsC {
		if ru.statsBad != "" {
			viol("attempts-identity", ru.statsBad)
			return
		}
	}
	if prop != "C09" {
		if len(hts) > 0 {
			rep.Distinct(fmt.Sprintf("hedge-stats|%d|%s|%d|%d", cs.MaxHedges, cs.Placement, len(runsC), len(hts)))
		}
		return
	}
	// winner: produced by an attempt
	var winner *c09Run
	var cands []*c09Run
	for _, ru := range runsC {
		if !ru.exit.IsZero() && ru.value == a.res && ru.err == a.err {
			cands = append(cands, ru)
		}
	}
	if len(cands) == 1 {
		winner = cands[0]
	} else if len(cands) > 1 {
		// CancelOnResult(7) makes values non-unique: the winner is the one candidate left uncancelled, if that is unambiguous
		var live []*c09Run
		for _, ru := range cands {
			if !ru.exec.IsCanceled() {
				live = append(live, ru)
			}
		}
		if len(live) != 1 {
			rep.Count("winner_ambiguous_not_judged", 1)
			return
		}
		winner = live[0]
	}
	if winner == nil {
		viol("result-not-produced-by-any-attempt", fmt.Sprintf("the hedge returned (%d,%v) which no finished attempt produced", a.res, a.err))
		return
	}
	matched := cs.matches(a.res, a.err) && winner.finishedNormally
	if matched {
		if cs.Mode == "gates" {
			rep.Count("accepted_matching_result_while_others_blocked", 1)
		}
	} else if winner.finishedNormally {
		// final non-matching result: all maxHedges+1 attempts must have exited before the application returned
		exited := 0
		for _, ru := range runsC {
			if !ru.exit.IsZero() && !ru.exit.After(a.t1) {
				exited++
			}
		}
		if exited < n {
			viol("returned-before-all-attempts-finished", fmt.Sprintf("no result matched the cancel conditions but the hedge returned when only %d of %d attempts had finished", exited, n))
			return
		}
		rep.Count("returned_final_non_matching_after_all_finished", 1)
	}
	// cancellation state at return
	for _, ru := range runsC {
		if ru == winner {
			if ru.exec.IsCanceled() && winner.finishedNormally {
				viol("winner-cancelled", fmt.Sprintf("the winning attempt (entry #%d) is cancelled after the call returned", ru.k))
				return
			}
			continue
		}
		if !ru.exec.IsCanceled() {
			viol("loser-not-cancelled", fmt.Sprintf("attempt entry #%d was started, did not win, and its context is not cancelled after the call returned", ru.k))
			return
		}
		if ru.enter.After(a.t1) && !ru.cancelledAtEntry {
			viol("late-attempt-live-context", fmt.Sprintf("attempt entry #%d entered the function %v after the hedge returned with a live context", ru.k, ru.enter.Sub(a.t1)))
			return
		}
	}
	// no hedge after a produced+accepted result when the next delay is 1h
	if matched {
		for _, ht := range hts {
			if ht.After(a.t1) {
				viol("hedge-after-acceptance", "an OnHedge event followed the return")
				return
			}
		}
	}
	_ = retAt
	if len(hts) > 0 {
		rep.Count("scenarios_with_hedges", 1)
		order := ""
		if cs.Mode == "gates" && n == 3 && len(runsC) == 3 {
			order = fmt.Sprint(cs.Order)
			if _, loaded := c09Perms.LoadOrStore(order, true); !loaded {
				rep.Count("distinct_completion_orders_of_3_attempts", 1)
			}
		}
		dk := "fixed"
		if len(cs.Delays) > 1 {
			dk = "func"
		}
		if cs.Delays[len(cs.Delays)-1] > int64(time.Second) {
			dk = "then-1h"
		}
		rep.Distinct(fmt.Sprintf("%d|%s|%s|%s|%s|%v|%d|%v", cs.MaxHedges, dk, cs.Cancel, cs.Mode, cs.Placement, cs.Order, winner.k, matched))
		if rep.WantSample() && cs.Mode == "gates" && n >= 3 {
			rep.Sample(map[string]any{"case": cs, "result": fmt.Sprintf("(%d,%v)", res, err), "winner_entry": winner.k, "matched": matched, "function_entries": len(runsC), "hedges": len(hts)})
		}
	}
}

// c09RetryInsideHedge: Hedge(Retry(fn)) with cancel conditions. The first attempt's retry policy uses up its retries at
// once on failing invocations, so the first ATTEMPT ends with a result that matches no cancel condition after several
// invocations of the function. That is one finished attempt, not maxHedges+1: the policy has to keep waiting, start its
// hedge after the delay, and return the hedge's matching result.
func c09RetryInsideHedge(rep *vk.Report, idx int) {
	r := vk.Rng(rep.Seed, "C09r", idx)
	maxHedges := 1 + r.IntN(2)
	retries := maxHedges + r.IntN(3) // the first attempt alone completes at least maxHedges+1 invocations
	delay := time.Duration(3+r.IntN(5)) * time.Millisecond
	var calls, hedges atomic.Int64
	t0 := time.Now()
	hp := hedgepolicy.BuilderWithDelay[int](delay).WithMaxHedges(maxHedges).CancelIf(func(_ int, err error) bool { return err == nil }).
		OnHedge(func(failsafe.ExecutionEvent[int]) { hedges.Add(1) }).Build()
	rp := retrypolicy.Builder[int]().WithMaxRetries(retries).Build()
	value := 9000 + idx%1000
	fn := func() (int, error) {
		if int(calls.Add(1)) <= retries+1 {
			return 0, errE1
		}
		return value, nil
	}
	var res int
	var err error
	if r.IntN(3) == 0 {
		res, err = failsafe.NewExecutor[int](hp, rp).GetAsync(fn).Get()
	} else {
		res, err = failsafe.NewExecutor[int](hp, rp).Get(fn)
	}
	took := time.Since(t0)
	rep.Eval()
	cs := map[string]any{"max_hedges": maxHedges, "retries_inside": retries, "hedge_delay_ns": int64(delay)}
	if err != nil || res != value || hedges.Load() < 1 || took < delay {
		rep.Violate(idx, "C09/returned-before-all-attempts-finished", fmt.Sprintf("Hedge(delay %v, maxHedges %d, cancel on success)(Retry(%d retries)(fn)): the first attempt failed %d invocations at once and ended in a non-matching result; the call returned (%d,%v) after %v with %d hedges started - want the hedge's matching result %d, no earlier than the hedge delay", delay, maxHedges, retries, retries+1, res, err, took, hedges.Load(), value), cs)
		return
	}
	rep.Count("retry_inside_hedge_rounds", 1)
	rep.Distinct(fmt.Sprintf("rih|%d|%d", maxHedges, retries))
}
