package checks

import (
	"fmt"
	"sync"
	"sync/atomic"
	"time"

	"github.com/failsafe-go/failsafe-go"
	"github.com/failsafe-go/failsafe-go/fallback"
	"github.com/failsafe-go/failsafe-go/hedgepolicy"

	"verifharness/vk"
)

// c10Overlapping: ONE fallback instance (of each kind) serves executions that overlap in time, and hedged attempts of one
// execution; its function takes a little while. Each handled, uncancelled failure gets the fallback applied exactly once:
// every failing execution returns the fallback's output, and the function / OnFallbackExecuted counts equal the number of
// handled failures - no matter how many applications are in progress at once.
func c10Overlapping(rep *vk.Report, idx int) {
	r := vk.Rng(rep.Seed, "C10o", idx)
	kind := vk.Pick(r, "func", "func", "result", "error")
	var fnCalls, executed atomic.Int64
	var fb failsafe.Policy[int]
	switch kind {
	case "func":
		fb = fallback.BuilderWithFunc[int](func(e failsafe.Execution[int]) (int, error) {
			fnCalls.Add(1)
			time.Sleep(200 * time.Microsecond)
			return e.LastResult() + 1000, nil
		}).OnFallbackExecuted(func(failsafe.ExecutionDoneEvent[int]) { executed.Add(1) }).Build()
	case "result":
		fb = fallback.BuilderWithResult[int](-1).OnFallbackExecuted(func(failsafe.ExecutionDoneEvent[int]) { executed.Add(1) }).Build()
	default:
		fb = fallback.BuilderWithError[int](errE3).OnFallbackExecuted(func(failsafe.ExecutionDoneEvent[int]) { executed.Add(1) }).Build()
	}
	g := 2 + r.IntN(7)
	per := 5 + r.IntN(20)
	hedged := r.IntN(4) == 0
	var bad atomic.Pointer[string]
	var failures atomic.Int64
	var wg sync.WaitGroup
	start := make(chan struct{})
	for w := 0; w < g; w++ {
		wr := vk.Rng(rep.Seed, "C10ow", idx*64+w)
		wg.Add(1)
		go func(w int) {
			defer wg.Done()
			<-start
			for i := 0; i < per; i++ {
				fail := wr.IntN(3) != 0
				val := w*100 + i
				fn := func() (int, error) {
					if fail {
						return val, errE1
					}
					return val, nil
				}
				pols := []failsafe.Policy[int]{fb}
				if hedged {
					// Hedge(Fallback(fn)) with a firing hedge: each hedged attempt that fails is a handled failure of its own
					pols = []failsafe.Policy[int]{hedgepolicy.BuilderWithDelay[int](20 * time.Microsecond).WithMaxHedges(1).CancelIf(func(int, error) bool { return false }).Build(), fb}
				}
				got, err := failsafe.Get(fn, pols...)
				if hedged {
					continue // which attempt's output is returned is the hedge policy's business; the counts are checked below
				}
				if fail {
					failures.Add(1)
				}
				ok := !fail && got == val && err == nil
				switch {
				case fail && kind == "func":
					ok = got == val+1000 && err == nil
				case fail && kind == "result":
					ok = got == -1 && err == nil
				case fail && kind == "error":
					ok = err == errE3
				}
				if !ok {
					msg := fmt.Sprintf("%s fallback shared by %d goroutines: function returned (%d,%v), execution returned (%d,%v)", kind, g, val, map[bool]error{true: errE1}[fail], got, err)
					bad.CompareAndSwap(nil, &msg)
				}
			}
		}(w)
	}
	close(start)
	wg.Wait()
	time.Sleep(time.Millisecond)
	rep.Eval()
	cs := map[string]any{"kind": kind, "goroutines": g, "executions_each": per, "hedged": hedged}
	if s := bad.Load(); s != nil {
		rep.Violate(idx, "C10/fallback-not-applied-under-overlap", *s, cs)
		return
	}
	if !hedged && (executed.Load() != failures.Load() || kind == "func" && fnCalls.Load() != failures.Load()) {
		rep.Violate(idx, "C10/fallback-not-applied-under-overlap", fmt.Sprintf("%s fallback shared by %d goroutines: %d handled failures, fallback function invoked %d times, OnFallbackExecuted fired %d times", kind, g, failures.Load(), fnCalls.Load(), executed.Load()), cs)
		return
	}
	if hedged && kind == "func" && fnCalls.Load() != executed.Load() {
		rep.Violate(idx, "C10/fallback-not-applied-under-overlap", fmt.Sprintf("Hedge(Fallback(fn)) with firing hedges: fallback function invoked %d times but OnFallbackExecuted fired %d times", fnCalls.Load(), executed.Load()), cs)
		return
	}
	rep.Count("overlapping_fallback_rounds", 1)
	rep.Distinct(fmt.Sprintf("overlap|%s|%d|%v", kind, g, hedged))
}
