package checks

import (
	"context"
	"fmt"
	"reflect"
	"runtime"
	"sync"
	"sync/atomic"
	"time"

	"github.com/failsafe-go/failsafe-go"
	"github.com/failsafe-go/failsafe-go/cachepolicy"
	"github.com/failsafe-go/failsafe-go/retrypolicy"

	"verifharness/vk"
)

// c11Concurrent: executions with different context-supplied keys overlap on ONE cache policy. Every value encodes the
// key it was produced under, so a value stored or served under another key is visible immediately.
func c11Concurrent(rep *vk.Report, idx int) {
	r := vk.Rng(rep.Seed, "C11c", idx)
	cache := &syncCache{m: map[string]int{}, sets: map[int]int{}}
	pol := cachepolicy.Builder[int](cache).WithKey(vk.Pick(r, "", "cfg")).Build()
	var pols []failsafe.Policy[int]
	if r.IntN(2) == 0 {
		pols = []failsafe.Policy[int]{pol}
	} else {
		pols = []failsafe.Policy[int]{pol, retrypolicy.Builder[int]().WithMaxRetries(1).Build()}
	}
	nkeys := 2 + r.IntN(5)
	g := nkeys * (1 + r.IntN(3))
	var bad atomic.Pointer[string]
	var calls atomic.Int64
	var wg sync.WaitGroup
	var pmu sync.Mutex
	produced := []int{} // every value an execution's function returned without error: each must have been stored
	start := make(chan struct{})
	for w := 0; w < g; w++ {
		wr := vk.Rng(rep.Seed, "C11cw", idx*64+w)
		wg.Add(1)
		go func(w int) {
			defer wg.Done()
			<-start
			k := w % nkeys
			key := fmt.Sprintf("key-%d", k)
			ctx := context.WithValue(context.Background(), cachepolicy.CacheKey, key)
			ex := failsafe.NewExecutor[int](pols...).WithContext(ctx)
			for i := 0; i < 6; i++ {
				v, err := ex.Get(func() (int, error) {
					n := int(calls.Add(1))
					if wr.IntN(2) == 0 {
						runtime.Gosched()
					} else {
						time.Sleep(time.Duration(wr.IntN(80)) * time.Microsecond)
					}
					pmu.Lock()
					produced = append(produced, n*100+k)
					pmu.Unlock()
					return n*100 + k, nil // the value carries the key index it was produced for
				})
				if err != nil || v%100 != k {
					msg := fmt.Sprintf("execution with context key %q got (%d,%v): a value produced for key-%d", key, v, err, v%100)
					bad.CompareAndSwap(nil, &msg)
				}
			}
		}(w)
	}
	close(start)
	wg.Wait()
	rep.Eval()
	cs := map[string]any{"keys": nkeys, "goroutines": g}
	if s := bad.Load(); s != nil {
		rep.Violate(idx, "C11/concurrent-wrong-key", *s, cs)
		return
	}
	cache.mu.Lock()
	defer cache.mu.Unlock()
	for key, v := range cache.m {
		if key != fmt.Sprintf("key-%d", v%100) {
			rep.Violate(idx, "C11/concurrent-wrong-key", fmt.Sprintf("after %d overlapping executions the cache holds %q -> %d, a value produced for key-%d", g*6, key, v, v%100), cs)
			return
		}
	}
	// a miss stores its error-free result, whatever other executions did to the same key in the meantime
	for _, v := range produced {
		if cache.sets[v] != 1 {
			rep.Violate(idx, "C11/miss-result-not-stored", fmt.Sprintf("an execution missed, its function returned (%d,nil), and that value was stored %d times (overlapping executions on key-%d)", v, cache.sets[v], v%100), cs)
			return
		}
	}
	if len(cache.m) != nkeys {
		rep.Violate(idx, "C11/concurrent-wrong-key", fmt.Sprintf("cache holds %d entries for %d distinct context keys: %v", len(cache.m), nkeys, cache.m), cs)
		return
	}
	rep.Count("concurrent_cache_rounds", 1)
	rep.Distinct(fmt.Sprintf("conc|%d|%d|%d", nkeys, g, len(pols)))
}

// typedCache is a map-backed cachepolicy.Cache for any result type; an entry whose value is the zero value (nil
// interface, nil pointer, empty string...) is an entry like any other.
type typedCache[R any] struct {
	mu         sync.Mutex
	m          map[string]R
	gets, sets int
}

func (c *typedCache[R]) Get(key string) (R, bool) {
	c.mu.Lock()
	defer c.mu.Unlock()
	c.gets++
	v, ok := c.m[key]
	return v, ok
}

func (c *typedCache[R]) Set(key string, value R) {
	c.mu.Lock()
	defer c.mu.Unlock()
	c.sets++
	c.m[key] = value
}

type c11Iface interface{ M() }
type c11Ptr struct{ n int }

// c11ResultTypes: the hit rule for result types whose values include nil/zero ones: an entry holding a nil interface, a nil
// pointer, a nil slice or map, "" or 0 is still an entry. Every key is executed (or preloaded) once and then executed
// again: the second execution must be a hit - function not invoked, cached value returned, hit event and no miss event.
func c11ResultTypes(rep *vk.Report, idx int) {
	r := vk.Rng(rep.Seed, "C11t", idx)
	switch r.IntN(8) {
	case 0:
		c11Typed[any](rep, idx, r, "any", []any{nil, 0, "", "x", (*c11Ptr)(nil), []int(nil)})
	case 1:
		c11Typed[error](rep, idx, r, "error", []error{nil, errE1})
	case 2:
		c11Typed[*c11Ptr](rep, idx, r, "*struct", []*c11Ptr{nil, {n: 1}})
	case 3:
		c11Typed[[]int](rep, idx, r, "[]int", [][]int{nil, {}, {1}})
	case 4:
		c11Typed[map[string]int](rep, idx, r, "map", []map[string]int{nil, {}, {"a": 1}})
	case 5:
		c11Typed[string](rep, idx, r, "string", []string{"", "v"})
	case 6:
		c11Typed[c11Iface](rep, idx, r, "interface", []c11Iface{nil})
	default:
		c11Typed[struct{}](rep, idx, r, "struct{}", []struct{}{{}})
	}
}

func c11Typed[R any](rep *vk.Report, idx int, r interface{ IntN(int) int }, tname string, vals []R) {
	cache := &typedCache[R]{m: map[string]R{}}
	var hits, misses, cached atomic.Int64
	pol := cachepolicy.Builder[R](cache).
		OnCacheHit(func(failsafe.ExecutionDoneEvent[R]) { hits.Add(1) }).
		OnCacheMiss(func(failsafe.ExecutionEvent[R]) { misses.Add(1) }).
		OnResultCached(func(failsafe.ExecutionEvent[R]) { cached.Add(1) }).Build()
	var innerCalls atomic.Int64
	pols := []failsafe.Policy[R]{pol}
	if r.IntN(2) == 0 {
		pols = append(pols, retrypolicy.Builder[R]().WithMaxRetries(1).Build())
	}
	for round := 0; round < 4; round++ {
		v := vals[r.IntN(len(vals))]
		key := fmt.Sprintf("k%d", round)
		ctx := context.WithValue(context.Background(), cachepolicy.CacheKey, key)
		ex := failsafe.NewExecutor[R](pols...).WithContext(ctx)
		how := r.IntN(3) // 0: preloaded, 1: stored by Get, 2: stored by Run (any result type: the zero value is what gets stored)
		var stored R
		switch how {
		case 0:
			cache.Set(key, v)
			stored = v
		case 1:
			got, err := ex.Get(func() (R, error) { innerCalls.Add(1); return v, nil })
			if err != nil || !reflect.DeepEqual(got, v) {
				rep.Violate(idx, "C11/typed-miss-result", fmt.Sprintf("result type %s: first execution returned (%#v,%v), function returned (%#v,nil)", tname, got, err, v), nil)
				return
			}
			stored = v
		case 2:
			if err := ex.Run(func() error { innerCalls.Add(1); return nil }); err != nil {
				rep.Violate(idx, "C11/typed-miss-result", fmt.Sprintf("result type %s: Run returned %v", tname, err), nil)
				return
			}
		}
		if got, ok := cache.m[key]; !ok || !reflect.DeepEqual(got, stored) {
			rep.Violate(idx, "C11/typed-not-stored", fmt.Sprintf("result type %s: after an error-free execution (how=%d) the cache holds (%#v, present=%v) under %q, want %#v", tname, how, got, ok, key, stored), nil)
			return
		}
		h0, m0, c0, s0, calls0 := hits.Load(), misses.Load(), innerCalls.Load(), cache.sets, innerCalls.Load()
		_ = c0
		var got R
		var err error
		var invoked bool
		if r.IntN(2) == 0 {
			got, err = ex.Get(func() (R, error) { invoked = true; return vals[len(vals)-1], nil })
		} else {
			err = ex.Run(func() error { invoked = true; return nil })
			got = stored
		}
		rep.Eval()
		cs := map[string]any{"result_type": tname, "stored": fmt.Sprintf("%#v", stored), "how": how}
		if invoked || err != nil || !reflect.DeepEqual(got, stored) || hits.Load() != h0+1 || misses.Load() != m0 || cache.sets != s0 || innerCalls.Load() != calls0 {
			rep.Violate(idx, "C11/entry-with-zero-value-not-a-hit", fmt.Sprintf("result type %s: the cache holds %#v under %q (how=%d), the next execution with that key: function invoked=%v, returned (%#v,%v), hit events +%d, miss events +%d, cache sets +%d", tname, stored, key, how, invoked, got, err, hits.Load()-h0, misses.Load()-m0, cache.sets-s0), cs)
			return
		}
		rep.Count("typed_cache_hits_checked", 1)
		rep.Distinct(fmt.Sprintf("typed|%s|%#v|%d|%d", tname, stored, how, len(pols)))
	}
}
