package checks

import (
	"context"
	"fmt"
	"runtime"
	"sync"
	"sync/atomic"
	"time"

	"github.com/failsafe-go/failsafe-go"
	"github.com/failsafe-go/failsafe-go/cachepolicy"
	"github.com/failsafe-go/failsafe-go/retrypolicy"

	"verifharness/vk"
)

// c11Concurrent: executions with different context-supplied keys overlap on ONE cache policy. Every value encodes the
// key it was produced under, so a value stored or served under another key is visible immediately.
func c11Concurrent(rep *vk.Report, idx int) {
	r := vk.Rng(rep.Seed, "C11c", idx)
	cache := &syncCache{m: map[string]int{}}
	pol := cachepolicy.Builder[int](cache).WithKey(vk.Pick(r, "", "cfg")).Build()
	var pols []failsafe.Policy[int]
	if r.IntN(2) == 0 {
		pols = []failsafe.Policy[int]{pol}
	} else {
		pols = []failsafe.Policy[int]{pol, retrypolicy.Builder[int]().WithMaxRetries(1).Build()}
	}
	nkeys := 2 + r.IntN(5)
	g := nkeys * (1 + r.IntN(3))
	var bad atomic.Pointer[string]
	var calls atomic.Int64
	var wg sync.WaitGroup
	start := make(chan struct{})
	for w := 0; w < g; w++ {
		wr := vk.Rng(rep.Seed, "C11cw", idx*64+w)
		wg.Add(1)
		go func(w int) {
			defer wg.Done()
			<-start
			k := w % nkeys
			key := fmt.Sprintf("key-%d", k)
			ctx := context.WithValue(context.Background(), cachepolicy.CacheKey, key)
			ex := failsafe.NewExecutor[int](pols...).WithContext(ctx)
			for i := 0; i < 6; i++ {
				v, err := ex.Get(func() (int, error) {
					n := int(calls.Add(1))
					if wr.IntN(2) == 0 {
						runtime.Gosched()
					} else {
						time.Sleep(time.Duration(wr.IntN(80)) * time.Microsecond)
					}
					return n*100 + k, nil // the value carries the key index it was produced for
				})
				if err != nil || v%100 != k {
					msg := fmt.Sprintf("execution with context key %q got (%d,%v): a value produced for key-%d", key, v, err, v%100)
					bad.CompareAndSwap(nil, &msg)
				}
			}
		}(w)
	}
	close(start)
	wg.Wait()
	rep.Eval()
	cs := map[string]any{"keys": nkeys, "goroutines": g}
	if s := bad.Load(); s != nil {
		rep.Violate(idx, "C11/concurrent-wrong-key", *s, cs)
		return
	}
	cache.mu.Lock()
	defer cache.mu.Unlock()
	for key, v := range cache.m {
		if key != fmt.Sprintf("key-%d", v%100) {
			rep.Violate(idx, "C11/concurrent-wrong-key", fmt.Sprintf("after %d overlapping executions the cache holds %q -> %d, a value produced for key-%d", g*6, key, v, v%100), cs)
			return
		}
	}
	if len(cache.m) != nkeys {
		rep.Violate(idx, "C11/concurrent-wrong-key", fmt.Sprintf("cache holds %d entries for %d distinct context keys: %v", len(cache.m), nkeys, cache.m), cs)
		return
	}
	rep.Count("concurrent_cache_rounds", 1)
	rep.Distinct(fmt.Sprintf("conc|%d|%d|%d", nkeys, g, len(pols)))
}
