package checks

import (
	"context"
	"errors"
	"fmt"
	"reflect"
	"strings"
	"sync/atomic"
	"time"

	"github.com/failsafe-go/failsafe-go"
	"github.com/failsafe-go/failsafe-go/circuitbreaker"
	"github.com/failsafe-go/failsafe-go/fallback"
	"github.com/failsafe-go/failsafe-go/hedgepolicy"
	"github.com/failsafe-go/failsafe-go/retrypolicy"

	"verifharness/vk"
)

func init() { register("C12", checkC12) }

// error universe ---------------------------------------------------------------------------------------------------

var errE3 = errors.New("E3")

type valErr struct{ Code int }

func (v valErr) Error() string { return fmt.Sprintf("valErr(%d)", v.Code) }

type ptrErr struct{ Code int }

func (p *ptrErr) Error() string { return fmt.Sprintf("ptrErr(%d)", p.Code) }

// isE1 is an error whose Is method claims to be E1.
type isE1 struct{}

func (isE1) Error() string        { return "isE1" }
func (isE1) Is(target error) bool { return target == errE1 }

// uncomparable error values
type sliceErr []string

func (s sliceErr) Error() string { return "sliceErr" }

type uncmpErr struct{ tags []string }

func (u uncmpErr) Error() string { return "uncmpErr" }

type uncmpIsE2 struct{ tags []string }

func (u uncmpIsE2) Error() string        { return "uncmpIsE2" }
func (u uncmpIsE2) Is(target error) bool { return target == errE2 }

type outcome struct {
	Res  int
	Err  error
	Name string
}

func c12Errors() []outcome {
	return []outcome{
		{0, nil, "nil"},
		{0, errE1, "E1"},
		{0, errE2, "E2"},
		{0, errE3, "E3"},
		{0, fmt.Errorf("w: %w", errE1), "wrap(E1)"},
		{0, fmt.Errorf("ww: %w", fmt.Errorf("w: %w", errE1)), "wrap(wrap(E1))"},
		{0, errors.Join(errE3, errE1), "join(E3,E1)"},
		{0, errors.Join(errE3, errE2), "join(E3,E2)"},
		{0, valErr{1}, "valErr"},
		{0, &ptrErr{1}, "ptrErr"},
		{0, fmt.Errorf("w: %w", valErr{2}), "wrap(valErr)"},
		{0, fmt.Errorf("w: %w", &ptrErr{2}), "wrap(ptrErr)"},
		{0, errors.Join(errE3, fmt.Errorf("w: %w", valErr{3})), "join(E3,wrap(valErr))"},
		{0, errors.Join(errE3, &ptrErr{3}), "join(E3,ptrErr)"},
		{0, isE1{}, "isE1"},
		{0, fmt.Errorf("m: %w %w", errE3, errE2), "multi%w(E3,E2)"},
		{0, fmt.Errorf("call: %w", context.DeadlineExceeded), "wrap(DeadlineExceeded)"},
		{0, fmt.Errorf("call: %w", context.Canceled), "wrap(Canceled)"},
	}
}

func c12Outcomes() []outcome {
	var out []outcome
	for _, res := range []int{0, 7, 9, 5} {
		for _, e := range c12Errors() {
			out = append(out, outcome{res, e.Err, fmt.Sprintf("(%d,%s)", res, e.Name)})
		}
	}
	return out
}

// independent classification rule ------------------------------------------------------------------------------------

// typeWalk reports whether err, or anything it wraps or joins, has dynamic type t.
func typeWalk(err error, t reflect.Type) bool {
	if err == nil {
		return false
	}
	if reflect.TypeOf(err) == t {
		return true
	}
	if u, ok := err.(interface{ Unwrap() error }); ok {
		return typeWalk(u.Unwrap(), t)
	}
	if u, ok := err.(interface{ Unwrap() []error }); ok {
		for _, e := range u.Unwrap() {
			if typeWalk(e, t) {
				return true
			}
		}
	}
	return false
}

func c12Pred(res int, err error) bool { return res == 9 || errors.Is(err, errE2) }

// cond is one registered condition: "E" errors(E1), "Tv"/"Tvp"/"Tp"/"Tpv" error types (value type by value / by pointer,
// pointer type by pointer / by value), "R" result 7, "I" predicate.
type condSet []string

func (cs condSet) matches(res int, err error) (matched bool, errorsChecked bool) {
	for _, c := range cs {
		switch c {
		case "E":
			errorsChecked = true
			matched = matched || errors.Is(err, errE1)
		case "Es":
			errorsChecked = true
			matched = matched || errors.Is(err, errE1) || errors.Is(err, errE2)
		case "EE", "EE2":
			errorsChecked = true
			matched = matched || errors.Is(err, errE1) || errors.Is(err, errE2)
		case "Eu":
			errorsChecked = true
			matched = matched || errors.Is(err, uncmpErr{tags: []string{"x"}})
		case "Eus":
			errorsChecked = true
			matched = matched || errors.Is(err, sliceErr{"a"}) || errors.Is(err, errE2)
		case "TT", "TT2":
			errorsChecked = true
			matched = matched || typeWalk(err, reflect.TypeOf(valErr{})) || typeWalk(err, reflect.TypeOf(&ptrErr{}))
		case "Tv", "Tvp":
			errorsChecked = true
			matched = matched || typeWalk(err, reflect.TypeOf(valErr{}))
		case "Tp", "Tpv":
			errorsChecked = true
			matched = matched || typeWalk(err, reflect.TypeOf(&ptrErr{}))
		case "R":
			matched = matched || (err == nil && reflect.DeepEqual(res, 7))
		case "I":
			errorsChecked = true
			matched = matched || c12Pred(res, err)
		}
	}
	return
}

// isFailure is the statement's rule.
func (cs condSet) isFailure(res int, err error) bool {
	// "E0"/"T0" are registrations with an empty list (HandleErrors() / HandleErrorTypes() fed from an empty
	// configuration): they configure no condition, so a policy that has only those is in the "no conditions" case
	effective := 0
	for _, c := range cs {
		if c != "E0" && c != "T0" {
			effective++
		}
	}
	if effective == 0 {
		return err != nil
	}
	m, checked := cs.matches(res, err)
	return m || (err != nil && !checked)
}

func typeSample(c string) any {
	switch c {
	case "Tv":
		return valErr{}
	case "Tvp":
		return &valErr{}
	case "Tp":
		return &ptrErr{}
	}
	return ptrErr{}
}

type failureBuilder[S any] interface {
	HandleErrors(errs ...error) S
	HandleErrorTypes(errs ...any) S
	HandleResult(result int) S
	HandleIf(predicate func(int, error) bool) S
}

func applyHandle[S any](b failureBuilder[S], cs condSet) {
	for _, c := range cs {
		switch c {
		case "E":
			b.HandleErrors(errE1)
		case "R":
			b.HandleResult(7)
		case "I":
			b.HandleIf(c12Pred)
		case "E0":
			b.HandleErrors()
		case "T0":
			b.HandleErrorTypes()
		case "Es":
			// registered from a caller-owned slice that is reused afterwards: the conditions are fixed at registration
			errs := []error{errE1, errE2}
			b.HandleErrors(errs...)
			errs[0], errs[1] = errE3, errE3
		case "Eu":
			b.HandleErrors(uncmpErr{tags: []string{"x"}})
		case "Eus":
			b.HandleErrors(sliceErr{"a"}, errE2)
		case "EE":
			b.HandleErrors(errE1, errE2)
		case "EE2":
			b.HandleErrors(errE2, errE1)
		case "TT":
			b.HandleErrorTypes(valErr{}, &ptrErr{})
		case "TT2":
			b.HandleErrorTypes(&ptrErr{}, valErr{})
		default:
			b.HandleErrorTypes(typeSample(c))
		}
	}
}

// condition set enumeration: every subset, every order (permutations; duplicates added), type sample forms.
func c12CondSets() []condSet {
	base := []string{"E", "T", "R", "I"}
	var sets []condSet
	var perm func(cur []string, rest []string)
	seen := map[string]bool{}
	add := func(cs []string) {
		// expand the T placeholder into the four sample forms
		forms := [][]string{{}}
		for _, c := range cs {
			var nf [][]string
			opts := []string{c}
			if c == "T" {
				opts = []string{"Tv", "Tvp", "Tp", "Tpv"}
			}
			for _, f := range forms {
				for _, o := range opts {
					nf = append(nf, append(append([]string{}, f...), o))
				}
			}
			forms = nf
		}
		for _, f := range forms {
			k := strings.Join(f, ",")
			if !seen[k] {
				seen[k] = true
				sets = append(sets, condSet(f))
			}
		}
	}
	perm = func(cur []string, rest []string) {
		add(cur)
		for i := range rest {
			nr := append(append([]string{}, rest[:i]...), rest[i+1:]...)
			perm(append(append([]string{}, cur...), rest[i]), nr)
		}
	}
	perm(nil, base)
	// duplicates and both type forms together
	for _, d := range [][]string{{"R", "E", "R"}, {"E", "E"}, {"Tv", "Tp"}, {"Tp", "R", "Tv"}, {"I", "R", "I"}, {"R", "R"}, {"EE"}, {"EE2"}, {"TT"}, {"TT2"}, {"TT", "R"}, {"R", "EE2"}, {"TT2", "EE"}, {"I", "TT"}, {"Es"}, {"Es", "R"}, {"Tv", "Es"}, {"E0"}, {"T0"}, {"E0", "T0"}} {
		add(d)
	}
	return sets
}

func checkC12(rep *vk.Report) {
	rep.Rule = "exhaustive grid: every subset and order of HandleErrors(E1)/HandleErrorTypes(sample in all four forms)/HandleResult(7)/HandleIf(pred) (plus duplicates, and registrations with an empty list, which configure nothing) x 72 outcomes (results 0,7,9,5 x nil, sentinels, wrapped, doubly wrapped, joined, multi-%w, value- and pointer-receiver typed, wrapped/joined typed, custom Is) x {fallback applied?, retry re-invoked?, breaker failure count through an execution and through RecordResult/RecordError}; the same for AbortOn*/CancelOn* subsets. Plus result types other than int (pointer, struct holding pointers, slice, map, interface holding a pointer): HandleResult/AbortOnResult must match separately allocated deep-equal values. Plus retry policies that allow no retries (classification seen through their listeners, the executor verdict and ExceededError) and policies with only abort conditions (an abort condition is not a handle condition). Plus sequences of 4-11 different outcomes shown to ONE breaker, fallback and retry policy instance (each outcome classified on its own merits). Plus random error trees (wrap/join/multi-%w to depth 4) x random condition lists (5 000 quick, 1 000 000 thorough). Expected value from the statement's rule evaluated with errors.Is, an own type walk, DeepEqual for outcomes without error, and the predicate. Non-trivial: the outcome carries an error or a handled result and at least one condition is configured; distinct by (policy kind, condition list, outcome)."
	rep.Assumptions = []string{
		"A6: AbortOnResult/CancelOnResult are not judged for outcomes that also carry an error",
		"A10: typed errors are produced in canonical form (value-receiver types by value, pointer-receiver types by pointer); all four sample forms are registered",
		"hedge cancel conditions are observed through timing (100ms hedge delay); a disagreement is re-tried 3 times before it counts",
	}
	sets := c12CondSets()
	outs := c12Outcomes()
	rep.Extra["condition_lists"] = len(sets)
	rep.Extra["outcomes"] = len(outs)
	rep.Extra["exhaustive_grid"] = true
	var idxc atomic.Int64
	// handle conditions
	vk.Parallel(len(sets), 16, func(si int) {
		cs := sets[si]
		for oi, o := range outs {
			idx := si*len(outs) + oi
			idxc.Add(1)
			if rep.Skip(idx) {
				continue
			}
			want := cs.isFailure(o.Res, o.Err)
			c12Handle(rep, idx, cs, o, want)
		}
	})
	baseIdx := len(sets) * len(outs)
	// abort conditions (retry) and cancel conditions (hedge)
	abortSets := []condSet{}
	for _, cs := range sets {
		if len(cs) <= 2 || len(cs) == 4 && cs[0] == "E" {
			abortSets = append(abortSets, cs)
		}
	}
	rep.Extra["abort_cancel_condition_lists"] = len(abortSets)
	vk.Parallel(len(abortSets), 16, func(si int) {
		cs := abortSets[si]
		for oi, o := range outs {
			idx := baseIdx + si*len(outs) + oi
			if rep.Skip(idx) {
				continue
			}
			c12Abort(rep, idx, cs, o)
		}
	})
	c12Deep(rep, 9000000)
	c12RandomTrees(rep, 9100000, scale(rep, 5000, 1000000))
	vk.Parallel(scale(rep, 2000, 100000), 16, func(i int) {
		if rep.Skip(9700000 + i) {
			return
		}
		c12SameInstanceSequences(rep, 9700000+i)
	})
	vk.Parallel(scale(rep, 3000, 100000), 16, func(i int) {
		if rep.Skip(9800000 + i) {
			return
		}
		c12ZeroRetriesAndAbortOnly(rep, 9800000+i)
	})
	// hedge: timing based, smaller grid run with limited parallelism
	hbase := baseIdx + len(abortSets)*len(outs)
	var hedgeSets []condSet
	for _, cs := range sets {
		if len(cs) <= 1 || len(cs) == 2 && cs[0] == "R" {
			hedgeSets = append(hedgeSets, cs)
		}
	}
	houts := []outcome{}
	for i, o := range outs {
		if i%3 == 0 || o.Res == 7 && o.Err == nil {
			houts = append(houts, o)
		}
	}
	rep.Extra["hedge_condition_lists"] = len(hedgeSets)
	vk.Parallel(len(hedgeSets)*len(houts), 12, func(k int) {
		idx := hbase + k
		if rep.Skip(idx) {
			return
		}
		c12Hedge(rep, idx, hedgeSets[k/len(houts)], houts[k%len(houts)])
	})
}

func c12Sig(kind string, cs condSet, o outcome, want bool) string {
	if o.Err != nil && o.Res == 7 {
		hasR := false
		for _, c := range cs {
			hasR = hasR || c == "R"
		}
		if hasR && !want {
			return "C12/handleresult-matches-outcome-that-carries-an-error"
		}
	}
	return "C12/" + kind + "-mismatch"
}

func c12Handle(rep *vk.Report, idx int, cs condSet, o outcome, want bool) {
	nontrivial := len(cs) > 0 && (o.Err != nil || o.Res == 7 || o.Res == 9)
	report := func(kind string, got bool) {
		rep.Eval()
		if nontrivial {
			rep.Distinct(fmt.Sprintf("%s|%v|%s", kind, cs, o.Name))
		}
		if got != want {
			rep.Violate(idx, c12Sig(kind, cs, o, want), fmt.Sprintf("%s with conditions %v, outcome %s: failure=%v, rule says %v", kind, []string(cs), o.Name, got, want), map[string]any{"conditions": cs, "outcome": o.Name, "policy": kind})
		}
	}
	fn := func() (int, error) { return o.Res, o.Err }
	// fallback
	fbb := fallback.BuilderWithResult[int](-1)
	applyHandle[fallback.FallbackBuilder[int]](fbb, cs)
	applied := false
	fbb.OnFallbackExecuted(func(failsafe.ExecutionDoneEvent[int]) { applied = true })
	res, err := failsafe.Get(fn, fbb.Build())
	if applied != (res == -1 && err == nil) {
		rep.Violate(idx, "C12/fallback-inconsistent", fmt.Sprintf("fallback listener fired=%v but result=(%d,%v)", applied, res, err), nil)
	}
	report("fallback", applied)
	// retry
	rpb := retrypolicy.Builder[int]().WithMaxRetries(1)
	applyHandle[retrypolicy.RetryPolicyBuilder[int]](rpb, cs)
	calls := 0
	failsafe.Get(func() (int, error) { calls++; return o.Res, o.Err }, rpb.Build())
	report("retry", calls == 2)
	// breaker through an execution
	cbb := circuitbreaker.Builder[int]().WithFailureThreshold(100)
	applyHandle[circuitbreaker.CircuitBreakerBuilder[int]](cbb, cs)
	cb := cbb.Build()
	failsafe.Get(fn, cb)
	report("breaker-exec", cb.Metrics().Failures() == 1)
	if cb.Metrics().Executions() != 1 {
		rep.Violate(idx, "C12/breaker-record-count", fmt.Sprintf("breaker recorded %d results for one execution", cb.Metrics().Executions()), nil)
	}
	// breaker standalone
	if o.Err == nil {
		cb2 := cbb.Build()
		cb2.RecordResult(o.Res)
		report("breaker-RecordResult", cb2.Metrics().Failures() == 1)
	}
	if o.Res == 0 {
		cb3 := cbb.Build()
		cb3.RecordError(o.Err)
		report("breaker-RecordError", cb3.Metrics().Failures() == 1)
	}
	if rep.WantSample() && nontrivial && idx%97 == 0 {
		rep.Sample(map[string]any{"conditions": cs, "outcome": o.Name, "is_failure": want})
	}
}

func c12Abort(rep *vk.Report, idx int, cs condSet, o outcome) {
	hasR := false
	for _, c := range cs {
		hasR = hasR || c == "R"
	}
	if hasR && o.Err != nil {
		rep.Count("A6_not_judged", 1)
		return
	}
	m, _ := cs.matches(o.Res, o.Err)
	rpb := retrypolicy.Builder[int]().WithMaxRetries(2).HandleIf(func(int, error) bool { return true })
	for _, c := range cs {
		switch c {
		case "E":
			rpb.AbortOnErrors(errE1)
		case "R":
			rpb.AbortOnResult(7)
		case "I":
			rpb.AbortIf(c12Pred)
		case "E0":
			rpb.AbortOnErrors()
		case "T0":
			rpb.AbortOnErrorTypes()
		case "Es":
			errs := []error{errE1, errE2}
			rpb.AbortOnErrors(errs...)
			errs[0], errs[1] = errE3, errE3
		case "Eu":
			rpb.AbortOnErrors(uncmpErr{tags: []string{"x"}})
		case "Eus":
			rpb.AbortOnErrors(sliceErr{"a"}, errE2)
		case "EE":
			rpb.AbortOnErrors(errE1, errE2)
		case "EE2":
			rpb.AbortOnErrors(errE2, errE1)
		case "TT":
			rpb.AbortOnErrorTypes(valErr{}, &ptrErr{})
		case "TT2":
			rpb.AbortOnErrorTypes(&ptrErr{}, valErr{})
		default:
			rpb.AbortOnErrorTypes(typeSample(c))
		}
	}
	aborted := false
	rpb.OnAbort(func(failsafe.ExecutionEvent[int]) { aborted = true })
	calls := 0
	failsafe.Get(func() (int, error) { calls++; return o.Res, o.Err }, rpb.Build())
	rep.Eval()
	if len(cs) > 0 {
		rep.Distinct(fmt.Sprintf("abort|%v|%s", cs, o.Name))
	}
	if got := calls == 1; got != m || aborted != m {
		rep.Violate(idx, "C12/abort-mismatch", fmt.Sprintf("retry with abort conditions %v, outcome %s: invocations=%d OnAbort=%v, rule says abort=%v", []string(cs), o.Name, calls, aborted, m), map[string]any{"conditions": cs, "outcome": o.Name})
	}
}

func c12Hedge(rep *vk.Report, idx int, cs condSet, o outcome) {
	hasR := false
	for _, c := range cs {
		hasR = hasR || c == "R"
		if c == "E0" || c == "T0" {
			return // whether an empty CancelOn* registration leaves "none configured" is not stated
		}
	}
	if hasR && o.Err != nil {
		rep.Count("A6_not_judged", 1)
		return
	}
	want := true // none configured: cancel on any result
	if len(cs) > 0 {
		want, _ = cs.matches(o.Res, o.Err)
	}
	var lastCalls int64
	for try := 0; try < 3; try++ {
		hb := hedgepolicy.BuilderWithDelay[int](100 * time.Millisecond).WithMaxHedges(1)
		for _, c := range cs {
			switch c {
			case "E":
				hb.CancelOnErrors(errE1)
			case "R":
				hb.CancelOnResult(7)
			case "I":
				hb.CancelIf(c12Pred)
			case "Es":
				errs := []error{errE1, errE2}
				hb.CancelOnErrors(errs...)
				errs[0], errs[1] = errE3, errE3
			case "EE":
				hb.CancelOnErrors(errE1, errE2)
			case "EE2":
				hb.CancelOnErrors(errE2, errE1)
			case "TT":
				hb.CancelOnErrorTypes(valErr{}, &ptrErr{})
			case "TT2":
				hb.CancelOnErrorTypes(&ptrErr{}, valErr{})
			default:
				hb.CancelOnErrorTypes(typeSample(c))
			}
		}
		var calls atomic.Int64
		failsafe.Get(func() (int, error) {
			if calls.Add(1) == 1 {
				return o.Res, o.Err
			}
			return 4242, nil
		}, hb.Build())
		lastCalls = calls.Load()
		if (lastCalls == 1) == want {
			rep.Eval()
			rep.Distinct(fmt.Sprintf("cancel|%v|%s", cs, o.Name))
			return
		}
		rep.Count("hedge_retries_after_disagreement", 1)
	}
	rep.Eval()
	rep.Violate(idx, "C12/cancel-mismatch", fmt.Sprintf("hedge with cancel conditions %v, first result %s: %d attempts (3 tries), rule says accepted-immediately=%v", []string(cs), o.Name, lastCalls, want), map[string]any{"conditions": cs, "outcome": o.Name})
}
