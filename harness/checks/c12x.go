package checks

import (
	"errors"
	"fmt"
	"reflect"

	"github.com/failsafe-go/failsafe-go"
	"github.com/failsafe-go/failsafe-go/circuitbreaker"
	"github.com/failsafe-go/failsafe-go/fallback"
	"github.com/failsafe-go/failsafe-go/hedgepolicy"
	"github.com/failsafe-go/failsafe-go/retrypolicy"

	"verifharness/vk"
)

// Result types other than int: HandleResult/AbortOnResult/CancelOnResult are documented to use reflect.DeepEqual, so a
// freshly allocated value with equal contents must match (pointers, structs holding pointers, slices, maps, interfaces).

type box struct {
	N    int
	Tags []string
	Next *box
}

type deepCase struct {
	name     string
	sample   any
	outcomes []any // candidate results; expected match = reflect.DeepEqual(sample, outcome)
}

func c12DeepCases() []deepCase {
	mk := func(n int) *box { return &box{N: n, Tags: []string{"a", "b"}, Next: &box{N: n + 1}} }
	return []deepCase{
		{"*box", mk(7), []any{mk(7), mk(8), (*box)(nil), &box{N: 7}}},
		{"box-with-pointer-field", *mk(7), []any{*mk(7), *mk(8), box{N: 7}}},
		{"[]int", []int{1, 2, 3}, []any{[]int{1, 2, 3}, []int{1, 2}, []int(nil)}},
		{"map", map[string]int{"a": 1}, []any{map[string]int{"a": 1}, map[string]int{"a": 2}, map[string]int(nil)}},
		{"any-holding-pointer", any(mk(7)), []any{any(mk(7)), any(mk(9)), any(7), nil}},
	}
}

func c12Deep(rep *vk.Report, base int) {
	idx := base
	for _, dc := range c12DeepCases() {
		for _, out := range dc.outcomes {
			idx++
			if rep.Skip(idx) {
				continue
			}
			want := reflect.DeepEqual(dc.sample, out)
			report := func(kind string, got bool) {
				rep.Eval()
				rep.Distinct(fmt.Sprintf("deep|%s|%s|%v", kind, dc.name, want))
				if got != want {
					rep.Violate(idx, "C12/deep-equality-"+kind, fmt.Sprintf("%s with HandleResult/AbortOnResult/CancelOnResult(%s sample) and a separately allocated outcome %#v: matched=%v, reflect.DeepEqual says %v", kind, dc.name, out, got, want), map[string]any{"type": dc.name, "policy": kind})
				}
			}
			fn := func() (any, error) { return out, nil }
			// fallback
			applied := false
			fb := fallback.BuilderWithResult[any]("fallback").HandleResult(dc.sample).OnFallbackExecuted(func(failsafe.ExecutionDoneEvent[any]) { applied = true }).Build()
			failsafe.Get(fn, fb)
			report("fallback", applied)
			// retry
			calls := 0
			rp := retrypolicy.Builder[any]().WithMaxRetries(1).HandleResult(dc.sample).Build()
			failsafe.Get(func() (any, error) { calls++; return out, nil }, rp)
			report("retry", calls == 2)
			// breaker
			cb := circuitbreaker.Builder[any]().WithFailureThreshold(100).HandleResult(dc.sample).Build()
			cb.RecordResult(out)
			report("breaker", cb.Metrics().Failures() == 1)
			// abort
			calls = 0
			ab := retrypolicy.Builder[any]().WithMaxRetries(2).HandleIf(func(any, error) bool { return true }).AbortOnResult(dc.sample).Build()
			failsafe.Get(func() (any, error) { calls++; return out, nil }, ab)
			report("abort", calls == 1)
			// hedge cancel (maxHedges 0: any result is final, so only construction and evaluation are exercised without timing)
			hp := hedgepolicy.BuilderWithDelay[any](0).WithMaxHedges(0).CancelOnResult(dc.sample).Build()
			if v, _ := failsafe.Get(fn, hp); !reflect.DeepEqual(v, out) {
				rep.Violate(idx, "C12/deep-equality-hedge", "hedge with CancelOnResult changed the result", nil)
			}
		}
	}
}

// c12RandomTrees: random error trees (wrap, join, multi-%w to depth 4 over the leaf universe) x random condition lists,
// observed through a fallback and a breaker; expected value from the statement's rule.
func c12RandomTrees(rep *vk.Report, base, n int) {
	// sliceErr and uncmpErr values are not comparable: errors.Is never compares them with == (only an Is method can make
	// them match), and a classifier that does panics
	leaves := []error{errE1, errE2, errE3, valErr{4}, &ptrErr{4}, isE1{}, sliceErr{"a"}, uncmpErr{tags: []string{"x"}}, uncmpIsE2{tags: []string{"y"}}}
	kinds := []string{"E", "EE", "Tv", "Tvp", "Tp", "Tpv", "TT", "R", "I", "Eu", "Eus", "Eu"}
	vk.Parallel(n, 16, func(i int) {
		idx := base + i
		if rep.Skip(idx) {
			return
		}
		r := vk.Rng(rep.Seed, "C12t", idx)
		var build func(d int) (error, string)
		build = func(d int) (error, string) {
			if d == 0 || r.IntN(3) == 0 {
				l := leaves[r.IntN(len(leaves))]
				return l, fmt.Sprintf("%T", l)
			}
			switch r.IntN(3) {
			case 0:
				e, s := build(d - 1)
				return fmt.Errorf("w: %w", e), "wrap(" + s + ")"
			case 1:
				a, sa := build(d - 1)
				b, sb := build(d - 1)
				return errors.Join(a, b), "join(" + sa + "," + sb + ")"
			default:
				a, sa := build(d - 1)
				b, sb := build(d - 1)
				return fmt.Errorf("m: %w and %w", a, b), "multi(" + sa + "," + sb + ")"
			}
		}
		err, shape := build(1 + r.IntN(4))
		var cs condSet
		for k := r.IntN(4); k >= 0; k-- {
			cs = append(cs, kinds[r.IntN(len(kinds))])
		}
		res := []int{0, 7, 9}[r.IntN(3)]
		want := cs.isFailure(res, err)
		fbb := fallback.BuilderWithResult[int](-1)
		applyHandle[fallback.FallbackBuilder[int]](fbb, cs)
		applied := false
		fbb.OnFallbackExecuted(func(failsafe.ExecutionDoneEvent[int]) { applied = true })
		cbb := circuitbreaker.Builder[int]().WithFailureThreshold(100)
		applyHandle[circuitbreaker.CircuitBreakerBuilder[int]](cbb, cs)
		cb := cbb.Build()
		if p := func() (p any) {
			defer func() { p = recover() }()
			failsafe.Get(func() (int, error) { return res, err }, fbb.Build())
			failsafe.Get(func() (int, error) { return res, err }, cb)
			return nil
		}(); p != nil {
			rep.Eval()
			rep.Violate(idx, "C12/classification-panicked", fmt.Sprintf("conditions %v, outcome (%d, %s): classifying the outcome panicked: %v", []string(cs), res, shape, p), map[string]any{"conditions": cs, "error_shape": shape, "result": res})
			return
		}
		rep.Eval()
		if applied != want || (cb.Metrics().Failures() == 1) != want {
			rep.Violate(idx, "C12/random-tree-mismatch", fmt.Sprintf("conditions %v, outcome (%d, %s): fallback applied=%v breaker failure=%v, rule says %v", []string(cs), res, shape, applied, cb.Metrics().Failures() == 1, want), map[string]any{"conditions": cs, "error_shape": shape, "result": res})
			return
		}
		// the same condition list as retry abort conditions
		if p := func() (p any) {
			defer func() { p = recover() }()
			c12Abort(rep, idx, cs, outcome{Res: res, Err: err, Name: shape})
			return nil
		}(); p != nil {
			rep.Violate(idx, "C12/classification-panicked", fmt.Sprintf("abort conditions %v, outcome (%d, %s): classifying the outcome panicked: %v", []string(cs), res, shape, p), map[string]any{"conditions": cs, "error_shape": shape, "result": res})
			return
		}
		if i%7 == 0 {
			rep.Distinct(fmt.Sprintf("tree|%v|%s", cs, shape))
		}
	})
}

// c12SameInstanceSequences: ONE breaker, ONE fallback and ONE retry policy, each built with a random condition list, are
// shown a sequence of different outcomes (same wrapper types around different causes, matching and not matching, in both
// orders). Every outcome must be classified on its own merits: a verdict reached for one outcome must not stick to the next.
func c12SameInstanceSequences(rep *vk.Report, idx int) {
	r := vk.Rng(rep.Seed, "C12s", idx)
	leaves := []error{errE1, errE2, errE3, valErr{4}, &ptrErr{4}, isE1{}}
	gen := func() (error, string) {
		l := leaves[r.IntN(len(leaves))]
		name := fmt.Sprintf("%T", l)
		switch r.IntN(5) {
		case 0:
			return l, name
		case 1:
			return fmt.Errorf("w: %w", l), "wrap(" + name + ")"
		case 2:
			return fmt.Errorf("ww: %w", fmt.Errorf("w: %w", l)), "wrap(wrap(" + name + "))"
		case 3:
			return errors.Join(errE3, l), "join(E3," + name + ")"
		}
		return fmt.Errorf("m: %w and %w", errE3, l), "multi(E3," + name + ")"
	}
	kinds := []string{"E", "EE", "Tv", "Tvp", "Tp", "Tpv", "TT", "R", "I"}
	var cs condSet
	for k := r.IntN(3); k >= 0; k-- {
		cs = append(cs, kinds[r.IntN(len(kinds))])
	}
	cbb := circuitbreaker.Builder[int]().WithFailureThreshold(1000)
	applyHandle[circuitbreaker.CircuitBreakerBuilder[int]](cbb, cs)
	cb := cbb.Build()
	fbb := fallback.BuilderWithResult[int](-1)
	applyHandle[fallback.FallbackBuilder[int]](fbb, cs)
	applied := 0
	fbb.OnFallbackExecuted(func(failsafe.ExecutionDoneEvent[int]) { applied++ })
	fb := fbb.Build()
	rpb := retrypolicy.Builder[int]().WithMaxRetries(1)
	applyHandle[retrypolicy.RetryPolicyBuilder[int]](rpb, cs)
	rp := rpb.Build()
	n := 4 + r.IntN(8)
	var seen []string
	for i := 0; i < n; i++ {
		err, shape := gen()
		res := []int{0, 7, 9}[r.IntN(3)]
		if r.IntN(6) == 0 {
			err, shape = nil, "nil"
		}
		seen = append(seen, fmt.Sprintf("(%d,%s)", res, shape))
		want := cs.isFailure(res, err)
		wantCB := want
		f0, a0 := cb.Metrics().Failures(), applied
		if r.IntN(2) == 0 {
			failsafe.Get(func() (int, error) { return res, err }, cb)
		} else if err != nil {
			cb.RecordError(err) // an error recorded on its own: the outcome is (zero value, err)
			wantCB = cs.isFailure(0, err)
		} else {
			cb.RecordResult(res)
		}
		failsafe.Get(func() (int, error) { return res, err }, fb)
		calls := 0
		failsafe.Get(func() (int, error) { calls++; return res, err }, rp)
		rep.Eval()
		gotCB, gotFB, gotRP := cb.Metrics().Failures() == f0+1, applied == a0+1, calls == 2
		if gotCB != wantCB || gotFB != want || gotRP != want {
			rep.Violate(idx, "C12/verdict-depends-on-earlier-outcomes", fmt.Sprintf("conditions %v on ONE breaker, fallback and retry policy; outcome #%d %s after %v: breaker failure=%v fallback applied=%v retried=%v, rule says %v (breaker: %v)", []string(cs), i, seen[i], seen[:i], gotCB, gotFB, gotRP, want, wantCB), map[string]any{"conditions": cs, "outcomes": seen})
			return
		}
	}
	rep.Count("same_instance_sequences", 1)
	if idx%5 == 0 {
		rep.Distinct(fmt.Sprintf("seq|%v|%d", cs, n))
	}
}

// c12ZeroRetriesAndAbortOnly: two corners of the classifier that a re-invocation count cannot show.
// (1) A retry policy that allows no retries still classifies: a failure fires its OnFailure (and OnRetriesExceeded) and is
// reported as a failed execution carrying ExceededError; a success fires OnSuccess.
// (2) An abort condition is not a handle condition: with only AbortOnResult(7)/AbortOnErrors(E1) configured, the outcome
// (7,nil) is a success of the policy (no conditions configured and no error) - no OnFailure, no OnAbort, executor success.
func c12ZeroRetriesAndAbortOnly(rep *vk.Report, idx int) {
	r := vk.Rng(rep.Seed, "C12z", idx)
	outs := c12Outcomes()
	o := outs[r.IntN(len(outs))]
	// (1)
	handles := []condSet{{}, {"E"}, {"R"}, {"I"}, {"Tv"}, {"E", "R"}}
	cs := handles[r.IntN(len(handles))]
	var polSucc, polFail, polExc, execSucc, execFail int
	rb := retrypolicy.Builder[int]()
	if r.IntN(2) == 0 {
		rb.WithMaxRetries(0)
	} else {
		rb.WithMaxAttempts(1)
	}
	applyHandle[retrypolicy.RetryPolicyBuilder[int]](rb, cs)
	rb.OnSuccess(func(failsafe.ExecutionEvent[int]) { polSucc++ }).OnFailure(func(failsafe.ExecutionEvent[int]) { polFail++ }).OnRetriesExceeded(func(failsafe.ExecutionEvent[int]) { polExc++ })
	calls := 0
	_, err := failsafe.NewExecutor[int](rb.Build()).
		OnSuccess(func(failsafe.ExecutionDoneEvent[int]) { execSucc++ }).OnFailure(func(failsafe.ExecutionDoneEvent[int]) { execFail++ }).
		Get(func() (int, error) { calls++; return o.Res, o.Err })
	rep.Eval()
	want := cs.isFailure(o.Res, o.Err)
	var xe retrypolicy.ExceededError
	gotExceeded := errors.As(err, &xe)
	if calls != 1 || want != (polFail == 1) || want == (polSucc == 1) || want != (polExc == 1) || want != (execFail == 1) || want == (execSucc == 1) || want != gotExceeded {
		rep.Violate(idx, "C12/zero-retry-policy-does-not-classify", fmt.Sprintf("retry policy allowing no retries, handle conditions %v, outcome %s: rule says failure=%v; policy OnFailure=%d OnSuccess=%d OnRetriesExceeded=%d, executor OnFailure=%d OnSuccess=%d, returned error %v (ExceededError=%v), invocations=%d", []string(cs), o.Name, want, polFail, polSucc, polExc, execFail, execSucc, err, gotExceeded, calls), map[string]any{"conditions": cs, "outcome": o.Name})
		return
	}
	// (2)
	var pf, pa, ps, es, ef int
	ab := retrypolicy.Builder[int]().WithMaxRetries(2)
	kind := r.IntN(3)
	switch kind {
	case 0:
		ab.AbortOnResult(7)
	case 1:
		ab.AbortOnResult(0)
	default:
		ab.AbortOnErrors(errE1).AbortOnResult(7)
	}
	ab.OnFailure(func(failsafe.ExecutionEvent[int]) { pf++ }).OnAbort(func(failsafe.ExecutionEvent[int]) { pa++ }).OnSuccess(func(failsafe.ExecutionEvent[int]) { ps++ })
	res := []int{7, 0, 5}[r.IntN(3)]
	calls = 0
	got, err2 := failsafe.NewExecutor[int](ab.Build()).
		OnSuccess(func(failsafe.ExecutionDoneEvent[int]) { es++ }).OnFailure(func(failsafe.ExecutionDoneEvent[int]) { ef++ }).
		Get(func() (int, error) { calls++; return res, nil })
	rep.Eval()
	if calls != 1 || got != res || err2 != nil || pf != 0 || pa != 0 || ps != 1 || es != 1 || ef != 0 {
		rep.Violate(idx, "C12/abort-condition-treated-as-handle-condition", fmt.Sprintf("retry policy with only abort conditions (variant %d), outcome (%d,nil) - no handle conditions and no error, a success: invocations=%d returned (%d,%v) policy OnFailure=%d OnAbort=%d OnSuccess=%d executor OnSuccess=%d OnFailure=%d", kind, res, calls, got, err2, pf, pa, ps, es, ef), map[string]any{"abort_variant": kind, "result": res})
		return
	}
	rep.Count("zero_retry_and_abort_only_cases", 1)
	if idx%3 == 0 {
		rep.Distinct(fmt.Sprintf("zr|%v|%s|%d|%d", cs, o.Name, kind, res))
	}
}
