package checks

import (
	"errors"
	"fmt"
	"reflect"

	"github.com/failsafe-go/failsafe-go"
	"github.com/failsafe-go/failsafe-go/circuitbreaker"
	"github.com/failsafe-go/failsafe-go/fallback"
	"github.com/failsafe-go/failsafe-go/hedgepolicy"
	"github.com/failsafe-go/failsafe-go/retrypolicy"

	"verifharness/vk"
)

// Result types other than int: HandleResult/AbortOnResult/CancelOnResult are documented to use reflect.DeepEqual, so a
// freshly allocated value with equal contents must match (pointers, structs holding pointers, slices, maps, interfaces).

type box struct {
	N    int
	Tags []string
	Next *box
}

type deepCase struct {
	name     string
	sample   any
	outcomes []any // candidate results; expected match = reflect.DeepEqual(sample, outcome)
}

func c12DeepCases() []deepCase {
	mk := func(n int) *box { return &box{N: n, Tags: []string{"a", "b"}, Next: &box{N: n + 1}} }
	return []deepCase{
		{"*box", mk(7), []any{mk(7), mk(8), (*box)(nil), &box{N: 7}}},
		{"box-with-pointer-field", *mk(7), []any{*mk(7), *mk(8), box{N: 7}}},
		{"[]int", []int{1, 2, 3}, []any{[]int{1, 2, 3}, []int{1, 2}, []int(nil)}},
		{"map", map[string]int{"a": 1}, []any{map[string]int{"a": 1}, map[string]int{"a": 2}, map[string]int(nil)}},
		{"any-holding-pointer", any(mk(7)), []any{any(mk(7)), any(mk(9)), any(7), nil}},
	}
}

func c12Deep(rep *vk.Report, base int) {
	idx := base
	for _, dc := range c12DeepCases() {
		for _, out := range dc.outcomes {
			idx++
			if rep.Skip(idx) {
				continue
			}
			want := reflect.DeepEqual(dc.sample, out)
			report := func(kind string, got bool) {
				rep.Eval()
				rep.Distinct(fmt.Sprintf("deep|%s|%s|%v", kind, dc.name, want))
				if got != want {
					rep.Violate(idx, "C12/deep-equality-"+kind, fmt.Sprintf("%s with HandleResult/AbortOnResult/CancelOnResult(%s sample) and a separately allocated outcome %#v: matched=%v, reflect.DeepEqual says %v", kind, dc.name, out, got, want), map[string]any{"type": dc.name, "policy": kind})
				}
			}
			fn := func() (any, error) { return out, nil }
			// fallback
			applied := false
			fb := fallback.BuilderWithResult[any]("fallback").HandleResult(dc.sample).OnFallbackExecuted(func(failsafe.ExecutionDoneEvent[any]) { applied = true }).Build()
			failsafe.Get(fn, fb)
			report("fallback", applied)
			// retry
			calls := 0
			rp := retrypolicy.Builder[any]().WithMaxRetries(1).HandleResult(dc.sample).Build()
			failsafe.Get(func() (any, error) { calls++; return out, nil }, rp)
			report("retry", calls == 2)
			// breaker
			cb := circuitbreaker.Builder[any]().WithFailureThreshold(100).HandleResult(dc.sample).Build()
			cb.RecordResult(out)
			report("breaker", cb.Metrics().Failures() == 1)
			// abort
			calls = 0
			ab := retrypolicy.Builder[any]().WithMaxRetries(2).HandleIf(func(any, error) bool { return true }).AbortOnResult(dc.sample).Build()
			failsafe.Get(func() (any, error) { calls++; return out, nil }, ab)
			report("abort", calls == 1)
			// hedge cancel (maxHedges 0: any result is final, so only construction and evaluation are exercised without timing)
			hp := hedgepolicy.BuilderWithDelay[any](0).WithMaxHedges(0).CancelOnResult(dc.sample).Build()
			if v, _ := failsafe.Get(fn, hp); !reflect.DeepEqual(v, out) {
				rep.Violate(idx, "C12/deep-equality-hedge", "hedge with CancelOnResult changed the result", nil)
			}
		}
	}
}

// c12RandomTrees: random error trees (wrap, join, multi-%w to depth 4 over the leaf universe) x random condition lists,
// observed through a fallback and a breaker; expected value from the statement's rule.
func c12RandomTrees(rep *vk.Report, base, n int) {
	// sliceErr and uncmpErr values are not comparable: errors.Is never compares them with == (only an Is method can make
	// them match), and a classifier that does panics
	leaves := []error{errE1, errE2, errE3, valErr{4}, &ptrErr{4}, isE1{}, sliceErr{"a"}, uncmpErr{tags: []string{"x"}}, uncmpIsE2{tags: []string{"y"}}}
	kinds := []string{"E", "EE", "Tv", "Tvp", "Tp", "Tpv", "TT", "R", "I", "Eu", "Eus", "Eu"}
	vk.Parallel(n, 16, func(i int) {
		idx := base + i
		if rep.Skip(idx) {
			return
		}
		r := vk.Rng(rep.Seed, "C12t", idx)
		var build func(d int) (error, string)
		build = func(d int) (error, string) {
			if d == 0 || r.IntN(3) == 0 {
				l := leaves[r.IntN(len(leaves))]
				return l, fmt.Sprintf("%T", l)
			}
			switch r.IntN(3) {
			case 0:
				e, s := build(d - 1)
				return fmt.Errorf("w: %w", e), "wrap(" + s + ")"
			case 1:
				a, sa := build(d - 1)
				b, sb := build(d - 1)
				return errors.Join(a, b), "join(" + sa + "," + sb + ")"
			default:
				a, sa := build(d - 1)
				b, sb := build(d - 1)
				return fmt.Errorf("m: %w and %w", a, b), "multi(" + sa + "," + sb + ")"
			}
		}
		err, shape := build(1 + r.IntN(4))
		var cs condSet
		for k := r.IntN(4); k >= 0; k-- {
			cs = append(cs, kinds[r.IntN(len(kinds))])
		}
		res := []int{0, 7, 9}[r.IntN(3)]
		want := cs.isFailure(res, err)
		fbb := fallback.BuilderWithResult[int](-1)
		applyHandle[fallback.FallbackBuilder[int]](fbb, cs)
		applied := false
		fbb.OnFallbackExecuted(func(failsafe.ExecutionDoneEvent[int]) { applied = true })
		cbb := circuitbreaker.Builder[int]().WithFailureThreshold(100)
		applyHandle[circuitbreaker.CircuitBreakerBuilder[int]](cbb, cs)
		cb := cbb.Build()
		if p := func() (p any) {
			defer func() { p = recover() }()
			failsafe.Get(func() (int, error) { return res, err }, fbb.Build())
			failsafe.Get(func() (int, error) { return res, err }, cb)
			return nil
		}(); p != nil {
			rep.Eval()
			rep.Violate(idx, "C12/classification-panicked", fmt.Sprintf("conditions %v, outcome (%d, %s): classifying the outcome panicked: %v", []string(cs), res, shape, p), map[string]any{"conditions": cs, "error_shape": shape, "result": res})
			return
		}
		rep.Eval()
		if applied != want || (cb.Metrics().Failures() == 1) != want {
			rep.Violate(idx, "C12/random-tree-mismatch", fmt.Sprintf("conditions %v, outcome (%d, %s): fallback applied=%v breaker failure=%v, rule says %v", []string(cs), res, shape, applied, cb.Metrics().Failures() == 1, want), map[string]any{"conditions": cs, "error_shape": shape, "result": res})
			return
		}
		// the same condition list as retry abort conditions
		if p := func() (p any) {
			defer func() { p = recover() }()
			c12Abort(rep, idx, cs, outcome{Res: res, Err: err, Name: shape})
			return nil
		}(); p != nil {
			rep.Violate(idx, "C12/classification-panicked", fmt.Sprintf("abort conditions %v, outcome (%d, %s): classifying the outcome panicked: %v", []string(cs), res, shape, p), map[string]any{"conditions": cs, "error_shape": shape, "result": res})
			return
		}
		if i%7 == 0 {
			rep.Distinct(fmt.Sprintf("tree|%v|%s", cs, shape))
		}
	})
}
