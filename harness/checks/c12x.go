package checks

import (
	"fmt"
	"reflect"

	"github.com/failsafe-go/failsafe-go"
	"github.com/failsafe-go/failsafe-go/circuitbreaker"
	"github.com/failsafe-go/failsafe-go/fallback"
	"github.com/failsafe-go/failsafe-go/hedgepolicy"
	"github.com/failsafe-go/failsafe-go/retrypolicy"

	"verifharness/vk"
)

// Result types other than int: HandleResult/AbortOnResult/CancelOnResult are documented to use reflect.DeepEqual, so a
// freshly allocated value with equal contents must match (pointers, structs holding pointers, slices, maps, interfaces).

type box struct {
	N    int
	Tags []string
	Next *box
}

type deepCase struct {
	name     string
	sample   any
	outcomes []any // candidate results; expected match = reflect.DeepEqual(sample, outcome)
}

func c12DeepCases() []deepCase {
	mk := func(n int) *box { return &box{N: n, Tags: []string{"a", "b"}, Next: &box{N: n + 1}} }
	return []deepCase{
		{"*box", mk(7), []any{mk(7), mk(8), (*box)(nil), &box{N: 7}}},
		{"box-with-pointer-field", *mk(7), []any{*mk(7), *mk(8), box{N: 7}}},
		{"[]int", []int{1, 2, 3}, []any{[]int{1, 2, 3}, []int{1, 2}, []int(nil)}},
		{"map", map[string]int{"a": 1}, []any{map[string]int{"a": 1}, map[string]int{"a": 2}, map[string]int(nil)}},
		{"any-holding-pointer", any(mk(7)), []any{any(mk(7)), any(mk(9)), any(7), nil}},
	}
}

func c12Deep(rep *vk.Report, base int) {
	idx := base
	for _, dc := range c12DeepCases() {
		for _, out := range dc.outcomes {
			idx++
			if rep.Skip(idx) {
				continue
			}
			want := reflect.DeepEqual(dc.sample, out)
			report := func(kind string, got bool) {
				rep.Eval()
				rep.Distinct(fmt.Sprintf("deep|%s|%s|%v", kind, dc.name, want))
				if got != want {
					rep.Violate(idx, "C12/deep-equality-"+kind, fmt.Sprintf("%s with HandleResult/AbortOnResult/CancelOnResult(%s sample) and a separately allocated outcome %#v: matched=%v, reflect.DeepEqual says %v", kind, dc.name, out, got, want), map[string]any{"type": dc.name, "policy": kind})
				}
			}
			fn := func() (any, error) { return out, nil }
			// fallback
			applied := false
			fb := fallback.BuilderWithResult[any]("fallback").HandleResult(dc.sample).OnFallbackExecuted(func(failsafe.ExecutionDoneEvent[any]) { applied = true }).Build()
			failsafe.Get(fn, fb)
			report("fallback", applied)
			// retry
			calls := 0
			rp := retrypolicy.Builder[any]().WithMaxRetries(1).HandleResult(dc.sample).Build()
			failsafe.Get(func() (any, error) { calls++; return out, nil }, rp)
			report("retry", calls == 2)
			// breaker
			cb := circuitbreaker.Builder[any]().WithFailureThreshold(100).HandleResult(dc.sample).Build()
			cb.RecordResult(out)
			report("breaker", cb.Metrics().Failures() == 1)
			// abort
			calls = 0
			ab := retrypolicy.Builder[any]().WithMaxRetries(2).HandleIf(func(any, error) bool { return true }).AbortOnResult(dc.sample).Build()
			failsafe.Get(func() (any, error) { calls++; return out, nil }, ab)
			report("abort", calls == 1)
			// hedge cancel (maxHedges 0: any result is final, so only construction and evaluation are exercised without timing)
			hp := hedgepolicy.BuilderWithDelay[any](0).WithMaxHedges(0).CancelOnResult(dc.sample).Build()
			if v, _ := failsafe.Get(fn, hp); !reflect.DeepEqual(v, out) {
				rep.Violate(idx, "C12/deep-equality-hedge", "hedge with CancelOnResult changed the result", nil)
			}
		}
	}
}
