package checks

import (
	"fmt"
	"math"
	"math/rand/v2"
	"time"

	"github.com/failsafe-go/failsafe-go"
	"github.com/failsafe-go/failsafe-go/retrypolicy"

	"verifharness/vk"
)

func init() { register("C13", checkC13) }

type delayCase struct {
	Kind         string  `json:"kind"` // fixed | backoff | random | none
	Delay        int64   `json:"delay,omitempty"`
	MaxDelay     int64   `json:"max_delay,omitempty"`
	Factor       float32 `json:"factor,omitempty"`
	DefaultFact  bool    `json:"with_backoff_default_factor,omitempty"`
	Min, Max     int64   `json:",omitempty"`
	DelayFn      []int64 `json:"delay_fn,omitempty"` // value per failure index, -1 = defer to the configured delay
	Jitter       int64   `json:"jitter,omitempty"`
	JitterFactor float32 `json:"jitter_factor,omitempty"`
	MaxDuration  int64   `json:"max_duration,omitempty"`
	Failures     int     `json:"failures"`
	Scaled       bool    `json:"scaled_waits"`
	Delays       []int64 `json:"observed_delays,omitempty"`
}

func genDelayCase(r *rand.Rand, scaled bool) delayCase {
	c := delayCase{Scaled: scaled}
	mags := []int64{1e3, 17e3, 1e6, 250e6, 1e9, 60e9, 3600e9, 36000e9}
	if !scaled {
		mags = []int64{100e3, 300e3, 1e6, 3e6}
	}
	mag := vk.Pick(r, mags...)
	switch r.IntN(5) {
	case 0:
		c.Kind = "fixed"
		c.Delay = mag
	case 1, 2:
		c.Kind = "backoff"
		c.Delay = mag
		c.Factor = vk.Pick(r, float32(2), 1.5, 3, 10, 1.1, 1)
		c.DefaultFact = c.Factor == 2 && r.IntN(2) == 0
		c.MaxDelay = int64(float64(mag) * vk.Pick(r, 1.0, 2.0, 7.3, 100.0, 5000.0))
		if !scaled && c.MaxDelay > 6e6 {
			c.MaxDelay = 6e6
		}
	case 3:
		c.Kind = "random"
		c.Min = mag
		c.Max = mag + r.Int64N(3*mag) + 1
	default:
		c.Kind = "none"
	}
	switch r.IntN(3) {
	case 1:
		c.Jitter = int64(float64(mag) * vk.Pick(r, 0.1, 0.5, 1.0, 2.0))
	case 2:
		c.JitterFactor = vk.Pick(r, float32(0.1), 0.25, 0.5, 1)
	}
	c.Failures = 1 + r.IntN(12)
	if scaled && r.IntN(6) == 0 {
		c.Failures = 30 + r.IntN(70)
	}
	if r.IntN(4) == 0 {
		for i := 0; i < c.Failures; i++ {
			c.DelayFn = append(c.DelayFn, vk.Pick(r, int64(-1), -1, 0, mag/3, mag, 5*mag))
		}
	}
	if !scaled && r.IntN(2) == 0 {
		c.MaxDuration = vk.Pick(r, int64(2e6), 5e6, 12e6, 30e6)
	}
	if scaled && r.IntN(5) == 0 {
		// the clamp is exercised with hour-scale delays against a short max duration: every delay must be cut to what is left
		c.MaxDuration = vk.Pick(r, int64(50e6), 1e9, 30e9)
	}
	return c
}

func buildRetryForDelays(c delayCase, onSched func(failsafe.ExecutionScheduledEvent[int]), fnIdx *int) retrypolicy.RetryPolicy[int] {
	b := retrypolicy.Builder[int]().WithMaxRetries(c.Failures)
	switch c.Kind {
	case "fixed":
		b.WithDelay(time.Duration(c.Delay))
	case "backoff":
		if c.DefaultFact {
			b.WithBackoff(time.Duration(c.Delay), time.Duration(c.MaxDelay))
		} else {
			b.WithBackoffFactor(time.Duration(c.Delay), time.Duration(c.MaxDelay), c.Factor)
		}
	case "random":
		b.WithRandomDelay(time.Duration(c.Min), time.Duration(c.Max))
	}
	if c.Jitter != 0 {
		b.WithJitter(time.Duration(c.Jitter))
	}
	if c.JitterFactor != 0 {
		b.WithJitterFactor(c.JitterFactor)
	}
	if c.DelayFn != nil {
		b.WithDelayFunc(func(exec failsafe.ExecutionAttempt[int]) time.Duration {
			i := exec.Attempts() - 1
			if i >= 0 && i < len(c.DelayFn) {
				return time.Duration(c.DelayFn[i])
			}
			return -1
		})
	}
	if c.MaxDuration != 0 {
		b.WithMaxDuration(time.Duration(c.MaxDuration))
	}
	b.OnRetryScheduled(onSched)
	return b.Build()
}

func checkC13(rep *vk.Report) {
	rep.Rule = "random retry delay configuration (fixed, backoff with factor 1-10, random range, none; delay function overriding some attempts; jitter duration or factor; with/without max duration) at magnitudes 1us-10h and 1-100 consecutive failures; every ExecutionScheduledEvent.Delay is checked against the configured envelope (base_k +- jitter, clamp to the remaining max duration bounded by elapsed times sampled inside the function and inside the listener), backoff monotonicity and cap, and the next attempt's start against listener time + Delay. Hour-scale sequences run with the verif wait scaler (reported delays untouched), the never-early clause un-scaled with 100us-5ms delays. Non-trivial: >=2 delays observed with a non-'none' configuration; distinct by (kind, factor, jitter kind, delay-func, max-duration, magnitude, failures bucket)."
	rep.Assumptions = []string{
		"R6: base_k tolerance = relative (k+1)*2^-22 (float32 API) + integer truncation propagated through remaining steps; jitter factor bounds get relative 2^-22 + 1ns",
		"elapsed time for the max-duration clamp is bracketed by time.Since(exec.StartTime()) inside the function (lower) and inside the listener (upper)",
		"wait scaler hook (failsafe.VerifSetWaitScale, verif tag) shortens sleeps only",
	}
	nS := scale(rep, 30000, 2000000)
	failsafe.VerifSetWaitScale(func(d time.Duration) time.Duration { return 0 })
	vk.Parallel(nS, 16, func(idx int) {
		if rep.Skip(idx) {
			return
		}
		runDelayCase(rep, idx, true)
	})
	failsafe.VerifSetWaitScale(nil)
	nU := scale(rep, 1500, 60000)
	vk.Parallel(nU, 16, func(i int) {
		idx := nS + i
		if rep.Skip(idx) {
			return
		}
		runDelayCase(rep, idx, false)
	})
	rep.Require("delays_checked", 1000)
	rep.Require("next_attempt_start_checked", 100)
	rep.Require("max_duration_clamps_observed", 10)
}

func runDelayCase(rep *vk.Report, idx int, scaled bool) {
	r := vk.Rng(rep.Seed, "C13", idx)
	c := genDelayCase(r, scaled)
	type sched struct {
		delay     time.Duration
		at        time.Time
		elapsedUp time.Duration // elapsed as seen inside the listener (upper bound on what the policy used)
		attempts  int
	}
	var scheds []sched
	var starts []time.Time
	var elapsedLow []time.Duration
	fnIdx := 0
	rp := buildRetryForDelays(c, func(e failsafe.ExecutionScheduledEvent[int]) {
		scheds = append(scheds, sched{e.Delay, time.Now(), e.ElapsedTime(), e.Attempts()})
		scheds[len(scheds)-1].at = time.Now()
	}, &fnIdx)
	failsafe.NewExecutor[int](rp).GetWithExecution(func(exec failsafe.Execution[int]) (int, error) {
		starts = append(starts, time.Now())
		fnIdx++
		if fnIdx <= c.Failures {
			elapsedLow = append(elapsedLow, time.Since(exec.StartTime()))
			return 0, errE1
		}
		return 1, nil
	})
	rep.Eval()
	viol := func(cat, msg string) {
		for _, s := range scheds {
			c.Delays = append(c.Delays, int64(s.delay))
		}
		rep.Violate(idx, "C13/"+cat, msg+fmt.Sprintf(" (case %+v)", c), c)
	}
	if c.MaxDuration == 0 && len(scheds) != c.Failures {
		viol("schedule-count", fmt.Sprintf("%d failures but %d OnRetryScheduled events", c.Failures, len(scheds)))
		return
	}
	fact := float64(c.Factor)
	if c.DefaultFact {
		fact = 2
	}
	k := 0 // consecutive backoff index
	prevBackoff := -1.0
	for i, s := range scheds {
		d := float64(s.delay)
		rep.Count("delays_checked", 1)
		if s.delay < 0 {
			viol("negative-delay", fmt.Sprintf("delay #%d is %v", i, s.delay))
			return
		}
		// base value and its tolerance
		var lo, hi float64
		isBackoff := false
		fnVal := int64(-1)
		if c.DelayFn != nil && i < len(c.DelayFn) {
			fnVal = c.DelayFn[i]
		}
		switch {
		case fnVal != -1:
			lo, hi = float64(fnVal), float64(fnVal)
		case c.Kind == "fixed":
			lo, hi = float64(c.Delay), float64(c.Delay)
		case c.Kind == "random":
			lo, hi = float64(c.Min), float64(c.Max)
		case c.Kind == "backoff":
			isBackoff = true
			u := float64(c.Delay) * math.Pow(fact, float64(k)) // uncapped
			tol := u*float64(k+1)/float64(1<<22) + 1
			if fact > 1 {
				tol += (math.Pow(fact, float64(k)) - 1) / (fact - 1)
			} else {
				tol += float64(k)
			}
			md := float64(c.MaxDelay)
			lo = math.Min(u-tol, md-md*float64(k+1)/float64(1<<22)-1)
			hi = math.Min(u+tol, md)
		default:
			lo, hi = 0, 0
		}
		baseLo, baseHi := lo, hi
		if hi != 0 || lo != 0 {
			if c.Jitter != 0 {
				lo -= float64(c.Jitter) + 1
				hi += float64(c.Jitter) + 1
			} else if c.JitterFactor != 0 {
				jf := float64(c.JitterFactor)
				lo = lo*(1-jf) - lo/float64(1<<21) - 1
				hi = hi*(1+jf) + hi/float64(1<<21) + 1
			}
		}
		if lo < 0 {
			lo = 0
		}
		// max duration clamp
		if c.MaxDuration != 0 {
			remHi := float64(c.MaxDuration) - float64(elapsedLow[i])
			remLo := float64(c.MaxDuration) - float64(s.elapsedUp)
			if remHi < 0 {
				remHi = 0
			}
			if remLo < 0 {
				remLo = 0
			}
			if d > remHi {
				viol("beyond-max-duration", fmt.Sprintf("delay #%d = %v extends past the remaining max duration (max %v, elapsed at least %v when the attempt failed)", i, s.delay, time.Duration(c.MaxDuration), elapsedLow[i]))
				return
			}
			if hi > remHi {
				rep.Count("max_duration_clamps_observed", 1)
			}
			hi = math.Min(hi, remHi)
			lo = math.Min(lo, remLo)
		}
		if d < lo || d > hi {
			viol("outside-envelope/"+c.Kind, fmt.Sprintf("delay #%d = %d ns outside [%.0f, %.0f] (base [%.0f,%.0f], backoff index %d)", i, s.delay, lo, hi, baseLo, baseHi, k))
			return
		}
		if isBackoff {
			if c.Jitter == 0 && c.JitterFactor == 0 && c.MaxDuration == 0 {
				if d > float64(c.MaxDelay) {
					viol("exceeds-max-delay", fmt.Sprintf("backoff delay #%d = %v > maxDelay %v", i, s.delay, time.Duration(c.MaxDelay)))
					return
				}
				if fact >= 1 && prevBackoff >= 0 && d < prevBackoff-prevBackoff/float64(1<<22)-1 {
					viol("backoff-decreased", fmt.Sprintf("backoff delay #%d = %v after %v", i, s.delay, time.Duration(prevBackoff)))
					return
				}
				prevBackoff = d
			}
			k++
		} else {
			// a delay supplied by the function does not advance the backoff sequence; per the statement the index counts
			// consecutive backoff delays, so a function value in between restarts nothing but also does not count
			if c.Kind == "backoff" && fnVal != -1 {
				if k == 0 {
					// backoff has not started yet
				}
			}
		}
		// next attempt never starts before the scheduled delay has elapsed (un-scaled runs only)
		if !scaled && i+1 < len(starts) {
			gap := starts[i+1].Sub(s.at)
			rep.Count("next_attempt_start_checked", 1)
			if gap < s.delay {
				viol("started-early", fmt.Sprintf("attempt %d started %v after OnRetryScheduled returned, scheduled delay %v", i+2, gap, s.delay))
				return
			}
		}
	}
	if len(scheds) >= 2 && c.Kind != "none" {
		jk := "nojitter"
		if c.Jitter != 0 {
			jk = "jitter"
		} else if c.JitterFactor != 0 {
			jk = fmt.Sprintf("jf%.2f", c.JitterFactor)
		}
		fb := c.Failures
		if fb > 12 {
			fb = 100
		}
		mag := c.Delay + c.Min
		rep.Distinct(fmt.Sprintf("%s|%.1f|%s|%v|%v|%d|%d|%v", c.Kind, c.Factor, jk, c.DelayFn != nil, c.MaxDuration != 0, mag, fb, scaled))
		if rep.WantSample() && len(scheds) <= 8 {
			for _, s := range scheds {
				c.Delays = append(c.Delays, int64(s.delay))
			}
			rep.Sample(c)
		}
	}
}
