package checks

import (
	"context"
	"fmt"
	"math/rand/v2"
	"sort"
	"strings"
	"sync"
	"sync/atomic"
	"time"

	"github.com/failsafe-go/failsafe-go"
	"github.com/failsafe-go/failsafe-go/bulkhead"
	"github.com/failsafe-go/failsafe-go/cachepolicy"
	"github.com/failsafe-go/failsafe-go/circuitbreaker"
	"github.com/failsafe-go/failsafe-go/fallback"
	"github.com/failsafe-go/failsafe-go/hedgepolicy"
	"github.com/failsafe-go/failsafe-go/ratelimiter"
	"github.com/failsafe-go/failsafe-go/retrypolicy"
	"github.com/failsafe-go/failsafe-go/timeout"

	"verifharness/vk"
)

func init() {
	register("C14", func(r *vk.Report) { checkC14(r, "C14") })
}

// syncCache is a concurrency-safe user cache.
type syncCache struct {
	mu   sync.Mutex
	m    map[string]int
	sets map[int]int // value -> number of Set calls that stored it (only kept when non-nil)
}

func (c *syncCache) Get(k string) (int, bool) {
	c.mu.Lock()
	defer c.mu.Unlock()
	v, ok := c.m[k]
	return v, ok
}

func (c *syncCache) Set(k string, v int) {
	c.mu.Lock()
	c.m[k] = v
	if c.sets != nil {
		c.sets[v]++
	}
	c.mu.Unlock()
}

var c14Sink atomic.Int64

// touch reads every accessor of what a listener or delay function is handed, as user code legitimately may.
func touchAttempt(e failsafe.ExecutionAttempt[int]) {
	n := e.Attempts() + e.Executions() + e.Retries() + e.Hedges() + e.LastResult()
	if e.LastError() != nil {
		n++
	}
	if e.IsFirstAttempt() || e.IsRetry() || e.IsHedge() {
		n++
	}
	n += int(e.ElapsedTime()) + int(e.ElapsedAttemptTime()) + e.StartTime().Nanosecond() + e.AttemptStartTime().Nanosecond()
	if e.Context().Err() != nil {
		n++
	}
	c14Sink.Add(int64(n))
}

func touchInfo(e failsafe.ExecutionInfo) {
	c14Sink.Add(int64(e.Attempts() + e.Executions() + e.Retries() + e.Hedges() + int(e.ElapsedTime()) + e.StartTime().Nanosecond()))
}

type c14Shared struct {
	pols   []failsafe.Policy[int]
	cb     []circuitbreaker.CircuitBreaker[int]
	rl     []ratelimiter.RateLimiter[int]
	bh     []bulkhead.Bulkhead[int]
	events atomic.Int64
	// breaker state-change events must form a connected path (checked inside the generic listener, which the
	// breaker calls under its own lock)
	lastState  atomic.Int64
	pathBroken atomic.Pointer[string]
	specific   atomic.Int64
	generic    atomic.Int64
}

// salt varies the breaker kind: count based ratio, or time based (2ms period, i.e. 200us time slices on the real clock, so
// the sliding window rolls over constantly while records and Metrics() reads overlap)
func buildC14(kinds []string, salt int) *c14Shared {
	sh := &c14Shared{}
	ev := func(e failsafe.ExecutionEvent[int]) { sh.events.Add(1); touchAttempt(e) }
	for _, k := range kinds {
		switch k {
		case "retry":
			rb := retrypolicy.Builder[int]().WithMaxRetries(2).
				HandleErrors(errE1, errE2).HandleErrorTypes(valErr{}, &ptrErr{}).AbortOnErrorTypes(isE1{})
			// every source of delay the policy has, including the randomised ones (shared by all executions of the policy)
			if salt%2 == 0 {
				rb.WithDelayFunc(func(e failsafe.ExecutionAttempt[int]) time.Duration {
					touchAttempt(e)
					return time.Duration(e.Attempts()%3) * 20 * time.Microsecond
				}).WithJitter(15 * time.Microsecond)
			} else {
				rb.WithRandomDelay(10*time.Microsecond, 60*time.Microsecond).WithJitterFactor(0.25)
			}
			sh.pols = append(sh.pols, rb.
				OnRetry(ev).OnFailure(ev).OnSuccess(ev).OnAbort(ev).OnRetriesExceeded(ev).
				OnRetryScheduled(func(e failsafe.ExecutionScheduledEvent[int]) {
					sh.events.Add(1)
					touchAttempt(e)
					c14Sink.Add(int64(e.Delay))
				}).Build())
		case "breaker":
			scGeneric := func(e circuitbreaker.StateChangedEvent) {
				sh.generic.Add(1)
				if prev := sh.lastState.Swap(int64(e.NewState)); prev != int64(e.OldState) || e.OldState == e.NewState {
					msg := fmt.Sprintf("OnStateChanged reported %v -> %v but the previous event left the breaker %v", e.OldState, e.NewState, circuitbreaker.State(prev))
					sh.pathBroken.CompareAndSwap(nil, &msg)
				}
			}
			sc := func(e circuitbreaker.StateChangedEvent) {
				sh.events.Add(1)
				m := e.Metrics()
				c14Sink.Add(int64(m.Executions() + m.Failures() + m.Successes() + m.FailureRate() + m.SuccessRate()))
				_ = e.Context().Err()
			}
			cbb := circuitbreaker.Builder[int]()
			switch salt % 3 {
			case 0:
				cbb.WithFailureThresholdRatio(5, 10)
			case 1:
				cbb.WithFailureRateThreshold(50, 5, 2*time.Millisecond)
			default:
				cbb.WithFailureThresholdPeriod(5, 2*time.Millisecond).WithSuccessThresholdRatio(2, 3)
			}
			cb := cbb.WithDelay(time.Millisecond).
				HandleErrors(errE1).HandleErrorTypes(valErr{}).
				WithDelayFunc(func(e failsafe.ExecutionAttempt[int]) time.Duration { touchAttempt(e); return 500 * time.Microsecond }).
				OnStateChanged(func(e circuitbreaker.StateChangedEvent) { sc(e); scGeneric(e) }).
				OnOpen(func(e circuitbreaker.StateChangedEvent) { sc(e); sh.specific.Add(1) }).
				OnClose(func(e circuitbreaker.StateChangedEvent) { sc(e); sh.specific.Add(1) }).
				OnHalfOpen(func(e circuitbreaker.StateChangedEvent) { sc(e); sh.specific.Add(1) }).OnFailure(ev).OnSuccess(ev).Build()
			sh.cb = append(sh.cb, cb)
			sh.pols = append(sh.pols, cb)
		case "limiter":
			rl := ratelimiter.BurstyBuilder[int](50, 500*time.Microsecond).WithMaxWaitTime(200 * time.Microsecond).OnRateLimitExceeded(ev).Build()
			sh.rl = append(sh.rl, rl)
			sh.pols = append(sh.pols, rl)
		case "bulkhead":
			bh := bulkhead.Builder[int](6).WithMaxWaitTime(200 * time.Microsecond).OnFull(ev).Build()
			sh.bh = append(sh.bh, bh)
			sh.pols = append(sh.pols, bh)
		case "timeout":
			sh.pols = append(sh.pols, timeout.Builder[int](2*time.Millisecond).OnTimeoutExceeded(func(e failsafe.ExecutionDoneEvent[int]) { sh.events.Add(1); touchInfo(e) }).Build())
		case "hedge":
			sh.pols = append(sh.pols, hedgepolicy.BuilderWithDelayFunc[int](func(e failsafe.ExecutionAttempt[int]) time.Duration { touchAttempt(e); return 150 * time.Microsecond }).
				WithMaxHedges(2).OnHedge(ev).CancelIf(func(v int, e error) bool { return e == nil }).Build())
		case "fallback":
			sh.pols = append(sh.pols, fallback.BuilderWithFunc[int](func(e failsafe.Execution[int]) (int, error) {
				touchAttempt(e)
				_ = e.IsCanceled()
				return -1, nil
			}).OnFallbackExecuted(func(e failsafe.ExecutionDoneEvent[int]) { sh.events.Add(1); touchInfo(e) }).OnFailure(ev).OnSuccess(ev).Build())
		case "cache":
			sh.pols = append(sh.pols, cachepolicy.Builder[int](&syncCache{m: map[string]int{}}).WithKey("k").
				CacheIf(func(v int, e error) bool { return e == nil && v%8 == 0 }).
				OnCacheHit(func(e failsafe.ExecutionDoneEvent[int]) { sh.events.Add(1); touchInfo(e) }).OnCacheMiss(ev).OnResultCached(ev).Build())
		}
	}
	return sh
}

type c14ExecCtr struct{ done, success, failure, calls, identityBad atomic.Int64 }

var c14Vals atomic.Int64

type c14Key struct{}

func c14Compositions(r *rand.Rand, quick bool) [][]string {
	var comps [][]string
	for _, a := range allKinds {
		comps = append(comps, []string{a})
		for _, b := range allKinds {
			comps = append(comps, []string{a, b})
		}
	}
	comps = append(comps, []string{"hedge", "retry"}, []string{"hedge", "timeout", "retry"}, []string{"timeout", "retry"}, []string{"timeout", "hedge"},
		[]string{"fallback", "retry", "breaker"}, []string{"retry", "hedge", "timeout"}, []string{"cache", "retry", "bulkhead", "limiter"})
	nt := 30
	if !quick {
		nt = 200
	}
	for i := 0; i < nt; i++ {
		comps = append(comps, []string{allKinds[r.IntN(8)], allKinds[r.IntN(8)], allKinds[r.IntN(8)]})
	}
	return comps
}

func checkC14(rep *vk.Report, prop string) {
	if prop == "C14" {
		rep.Rule = "race-detector build. For every composition (all 8 single policies, all 64 ordered pairs, mandated stacks Hedge(Retry), Hedge(Timeout(Retry)), Timeout(Retry), Timeout(Hedge), ... and sampled triples) one shared executor and shared policy instances are hit by 16-48 goroutines mixing the eight entry points, async Cancel, cancellable contexts and standalone API calls (breaker Record*/TryAcquire/Open/Close/HalfOpen/State/Metrics/RemainingDelay, limiter Try*/Reserve*, bulkhead Try/Acquire/Release); every listener, delay function and fallback reads every accessor of what it is handed. Deciding observations: data-race reports whose stacks contain library frames (de-duplicated by the pair of innermost library functions), panics/fatal errors, a stuck round with goroutines parked on the library's mutexes, per-execution completion-listener counts; Hedge(Retry) executions whose retry-policy listener is still running while the hedged attempt succeeds (the success must be delivered, no library lock held across a user listener). Non-trivial: a composition round that ran >=100 executions with >=2 goroutines inside the library at once; distinct by composition."
		rep.Assumptions = []string{
			"the race detector judges happens-before on the interleavings that occurred, not all schedules; the workload is repeated because reports vary run to run",
			"user-supplied cache is itself thread-safe; listeners only read",
		}
	}
	r := vk.Rng(rep.Seed, "C14", 0)
	comps := c14Compositions(r, rep.Tier == "quick")
	repeats := scale(rep, 2, 12)
	idx := 0
	for rp := 0; rp < repeats; rp++ {
		for ci, kinds := range comps {
			idx++
			if rep.Skip(idx) {
				continue
			}
			c14Round(rep, prop, idx, kinds, rp*1000+ci)
		}
	}
	if prop == "C14" {
		vk.Parallel(scale(rep, 60, 2000), 16, func(i int) {
			if rep.Skip(60000000 + i) {
				return
			}
			c14ListenerWaitsForSibling(rep, 60000000+i)
		})
		// the standalone permit methods of a shared rate limiter called concurrently behave like some sequential order of the
		// same calls (the C05 histories, judged here as "every property above continues to hold" under concurrency)
		vk.Parallel(scale(rep, 600, 50000), 16, func(i int) {
			if rep.Skip(61000000 + i) {
				return
			}
			rlConcurrent(rep, 61000000+i, "C14")
		})
		// atomicity that the race detector cannot see: Cancel racing with the retry loop of the async runner
		cancelStress(rep, "C14", 50000000, scale(rep, 30000, 600000))
		rep.Require("executions", 10000)
		rep.Require("rounds_with_concurrency_inside_library", 50)
	}
}

func c14Round(rep *vk.Report, prop string, idx int, kinds []string, salt int) {
	sh := buildC14(kinds, salt)
	name := strings.Join(kinds, ">")
	nestedHedges := strings.Count(name, "hedge") > 1
	g := 16 + salt%3*16
	per := scale(rep, 12, 30)
	var inside, maxInside atomic.Int64
	var execs atomic.Int64
	var bad atomic.Pointer[string]
	var wg sync.WaitGroup
	for w := 0; w < g; w++ {
		wr := vk.Rng(rep.Seed, "C14w", idx*64+w)
		wg.Add(1)
		go func(w int) {
			defer wg.Done()
			for i := 0; i < per; i++ {
				if wr.IntN(5) == 0 {
					c14Standalone(sh, wr)
					continue
				}
				ctr := &c14ExecCtr{}
				ctx := context.WithValue(context.Background(), c14Key{}, ctr)
				var cancel context.CancelFunc = func() {}
				if wr.IntN(4) == 0 {
					ctx, cancel = context.WithCancel(ctx)
					time.AfterFunc(time.Duration(wr.IntN(400))*time.Microsecond, cancel)
				}
				if wr.IntN(6) == 0 {
					ctx = context.WithValue(ctx, cachepolicy.CacheKey, fmt.Sprintf("k%d", wr.IntN(3)))
				}
				ex := failsafe.NewExecutor[int](sh.pols...).WithContext(ctx).
					OnDone(func(e failsafe.ExecutionDoneEvent[int]) {
						ctr.done.Add(1)
						touchInfo(e)
						// the counters are separate atomics: read the ones that are bumped second first. With a hedge nested in a
						// hedge an abandoned branch may be starting a hedge while this event is delivered (CopyForHedge bumps
						// attempts, then hedges, and nothing orders that with the winner's completion), so only the order-safe
						// inequality can be demanded there; everywhere else retries are started under the execution's lock, which
						// the hedge's cancellation of the losing branches also takes, and equality must hold
						x, rt, h := e.Executions(), e.Retries(), e.Hedges()
						a := e.Attempts()
						if (nestedHedges && a < 1+rt+h) || (!nestedHedges && a != 1+rt+h) || x > a {
							ctr.identityBad.Add(1)
						}
					}).
					OnSuccess(func(e failsafe.ExecutionDoneEvent[int]) { ctr.success.Add(1); touchInfo(e) }).
					OnFailure(func(e failsafe.ExecutionDoneEvent[int]) { ctr.failure.Add(1); touchInfo(e) })
				beh := wr.IntN(6)
				dur := time.Duration(wr.IntN(300)) * time.Microsecond
				val := int(c14Vals.Add(1))*8 + wr.IntN(8) // unique per execution; multiples of 8 are cacheable
				body := func(exec failsafe.Execution[int]) (int, error) {
					ctr.calls.Add(1)
					v := inside.Add(1)
					for {
						m := maxInside.Load()
						if v <= m || maxInside.CompareAndSwap(m, v) {
							break
						}
					}
					defer inside.Add(-1)
					if exec != nil {
						touchAttempt(exec)
					}
					switch beh {
					case 0:
						if val%3 == 0 {
							return 0, valErr{val}
						}
						return 0, errE1
					case 1:
						time.Sleep(dur)
					case 2:
						if exec != nil {
							select {
							case <-exec.Canceled():
								return 0, errE2
							case <-time.After(3 * time.Millisecond):
							}
						}
					case 3:
						if exec != nil && exec.Attempts() < 2 {
							return 0, errE1
						}
					}
					return val, nil
				}
				entry := wr.IntN(8)
				res, rerr, hasRes := 0, error(nil), false
				switch entry {
				case 0:
					rerr = ex.Run(func() error { _, e := body(nil); return e })
				case 1:
					rerr = ex.RunWithExecution(func(e failsafe.Execution[int]) error { _, er := body(e); return er })
				case 2:
					res, rerr = ex.Get(func() (int, error) { return body(nil) })
					hasRes = true
				case 3:
					res, rerr = ex.GetWithExecution(body)
					hasRes = true
				default:
					var ar failsafe.ExecutionResult[int]
					switch entry {
					case 4:
						ar = ex.RunAsync(func() error { _, e := body(nil); return e })
					case 5:
						ar = ex.RunWithExecutionAsync(func(e failsafe.Execution[int]) error { _, er := body(e); return er })
					case 6:
						ar = ex.GetAsync(func() (int, error) { return body(nil) })
					default:
						ar = ex.GetWithExecutionAsync(body)
					}
					if wr.IntN(3) == 0 {
						time.Sleep(time.Duration(wr.IntN(200)) * time.Microsecond)
						ar.Cancel()
					}
					_ = ar.IsDone()
					res, rerr = ar.Get()
					hasRes = entry >= 6
				}
				// per-execution sanity under load: the value is this execution's own, a fallback's, a cached one or zero with an
				// error; the function was not invoked more often than the nesting of retries and hedges admits
				hasCache := strings.Contains(name, "cache")
				if hasRes && rerr == nil && res != val && res != -1 && !(hasCache && res%8 == 0) {
					msg := fmt.Sprintf("execution through %s (entry %d) returned %d, which is neither its own value %d, the fallback's nor a cacheable value", name, entry, res, val)
					bad.CompareAndSwap(nil, &msg)
				}
				maxCalls := int64(1)
				for _, k := range kinds {
					if k == "retry" || k == "hedge" {
						maxCalls *= 3
					}
				}
				if c := ctr.calls.Load(); c > maxCalls {
					msg := fmt.Sprintf("execution through %s invoked its function %d times, the nesting admits at most %d", name, c, maxCalls)
					bad.CompareAndSwap(nil, &msg)
				}
				if ctr.identityBad.Load() != 0 {
					msg := fmt.Sprintf("execution through %s: done event violates Attempts == 1 + Retries + Hedges or Executions <= Attempts", name)
					bad.CompareAndSwap(nil, &msg)
				}
				cancel()
				execs.Add(1)
				if d, s, f := ctr.done.Load(), ctr.success.Load(), ctr.failure.Load(); d != 1 || s+f != 1 {
					msg := fmt.Sprintf("execution through %s (entry %d): OnDone fired %d times, OnSuccess %d, OnFailure %d", name, entry, d, s, f)
					bad.CompareAndSwap(nil, &msg)
				}
			}
		}(w)
	}
	fin := make(chan struct{})
	go func() { wg.Wait(); close(fin) }()
	select {
	case <-fin:
	case <-time.After(65 * time.Second):
		st := allStacks()
		rep.Abort()
		where, n := libraryDeadlock(st)
		if n == 0 {
			// whatever is blocked now may have been blocked for less than the minute the runtime needs to say so
			select {
			case <-fin:
				rep.Inconclusive("C14 round over " + name + " took more than 65s")
				return
			case <-time.After(62 * time.Second):
			}
			st = allStacks()
			where, n = libraryDeadlock(st)
		}
		if n > 0 {
			rep.Violate(idx, prop+"/deadlock-inside-library", fmt.Sprintf("round over %s did not finish in 65s (every wait in it is bounded by a few ms): %d goroutines have been blocked for over a minute with library code on top of their stack (%s) and no user function is running inside any execution", name, n, where), map[string]any{"composition": name, "stacks": st[:min(len(st), 12000)]})
		} else if strings.Contains(st, "sync.(*Mutex).Lock") && strings.Contains(st, "github.com/failsafe-go/failsafe-go/") {
			rep.Violate(idx, prop+"/stuck-on-library-mutex", fmt.Sprintf("round over %s did not finish in 65s (every wait in it is bounded by a few ms); goroutines are parked on a mutex inside the library", name), map[string]any{"composition": name, "stacks": st[:min(len(st), 12000)]})
		} else {
			rep.Inconclusive("C14 round over " + name + " stuck for 65s without goroutines blocked for a minute inside the library")
		}
		return
	}
	rep.EvalN(execs.Load())
	rep.Count("executions", execs.Load())
	rep.Count("listener_events", sh.events.Load())
	if len(sh.cb) == 1 {
		if p := sh.pathBroken.Load(); p != nil {
			rep.Violate(idx, prop+"/breaker-events-not-a-connected-path", fmt.Sprintf("round over %s: %s", name, *p), map[string]any{"composition": name})
			return
		}
		if sh.specific.Load() != sh.generic.Load() {
			rep.Violate(idx, prop+"/breaker-specific-and-generic-events-differ", fmt.Sprintf("round over %s: %d specific (OnOpen/OnHalfOpen/OnClose) events but %d OnStateChanged events", name, sh.specific.Load(), sh.generic.Load()), map[string]any{"composition": name})
			return
		}
		rep.Count("breaker_events_under_load", sh.generic.Load())
	}
	if s := bad.Load(); s != nil {
		rep.Violate(idx, prop+"/per-execution-oracle-under-load", *s, map[string]any{"composition": name})
		return
	}
	if maxInside.Load() >= 2 && execs.Load() >= 100 {
		rep.Count("rounds_with_concurrency_inside_library", 1)
		rep.Distinct(name)
		if rep.WantSample() {
			rep.Sample(map[string]any{"composition": name, "goroutines": g, "executions": execs.Load(), "max_concurrent_inside_function": maxInside.Load(), "listener_events": sh.events.Load()})
		}
	}
}

func c14Standalone(sh *c14Shared, wr *rand.Rand) {
	for _, cb := range sh.cb {
		switch wr.IntN(10) {
		case 0:
			cb.RecordFailure()
		case 1:
			cb.RecordSuccess()
		case 2:
			cb.RecordResult(3)
		case 3:
			cb.RecordError(errE1)
		case 4:
			if cb.TryAcquirePermit() {
				cb.RecordSuccess()
			}
		case 5:
			cb.Open()
		case 6:
			cb.Close()
		case 7:
			cb.HalfOpen()
		default:
			m := cb.Metrics()
			c14Sink.Add(int64(cb.State()) + int64(cb.RemainingDelay()) + int64(m.Executions()+m.Failures()+m.FailureRate()+m.Successes()+m.SuccessRate()))
			_ = cb.IsOpen() || cb.IsClosed() || cb.IsHalfOpen()
		}
	}
	for _, rl := range sh.rl {
		switch wr.IntN(4) {
		case 0:
			rl.TryAcquirePermit()
		case 1:
			rl.TryReservePermit(50 * time.Microsecond)
		case 2:
			rl.TryAcquirePermits(2)
		default:
			ctx, c := context.WithTimeout(context.Background(), 200*time.Microsecond)
			rl.AcquirePermitWithMaxWait(ctx, 100*time.Microsecond)
			c()
		}
	}
	for _, bh := range sh.bh {
		if bh.TryAcquirePermit() {
			time.Sleep(20 * time.Microsecond)
			bh.ReleasePermit()
		} else {
			ctx, c := context.WithTimeout(context.Background(), 300*time.Microsecond)
			if bh.AcquirePermit(ctx) == nil {
				bh.ReleasePermit()
			}
			c()
		}
	}
}

// libraryDeadlock reads a full goroutine dump taken from a round that should have finished long ago. It returns how many
// goroutines have been blocked for at least a minute (the runtime prints "N minutes" in the header) with a library
// function as their first non-runtime frame, and where - but only when no goroutine is inside a harness function that
// was called from library code (a user function, listener or delay function still running inside some execution, which
// would make the library's wait legitimate).
func libraryDeadlock(dump string) (string, int) {
	const lib = "github.com/failsafe-go/failsafe-go"
	isRuntime := func(f string) bool {
		for _, p := range []string{"runtime.", "sync.", "sync/atomic.", "time.", "context.", "internal/", "runtime/"} {
			if strings.HasPrefix(f, p) {
				return true
			}
		}
		return false
	}
	n := 0
	where := map[string]bool{}
	for _, g := range strings.Split(dump, "\n\n") {
		lines := strings.Split(g, "\n")
		if len(lines) < 2 || !strings.HasPrefix(lines[0], "goroutine ") {
			continue
		}
		var frames []string
		for _, l := range lines[1:] {
			if l != "" && !strings.HasPrefix(l, "\t") && !strings.HasPrefix(l, "created by ") {
				frames = append(frames, l)
			}
		}
		first := ""
		sawHarness := false
		for _, f := range frames {
			if isRuntime(f) {
				continue
			}
			if first == "" {
				first = f
			}
			if strings.HasPrefix(f, "verifharness/") {
				sawHarness = true
			} else if strings.HasPrefix(f, lib) && sawHarness {
				return "", 0 // harness code called from library code is still on a stack
			}
		}
		if strings.HasPrefix(first, lib) && strings.Contains(lines[0], " minutes") {
			n++
			if i := strings.LastIndex(first, "("); i > 0 {
				first = first[:i]
			}
			where[strings.TrimPrefix(first, lib+"/")] = true
		}
	}
	var ws []string
	for w := range where {
		ws = append(ws, w)
	}
	sort.Strings(ws)
	return strings.Join(ws, ", "), n
}

// c14ListenerWaitsForSibling: a user listener of a shared per-execution policy executor is slow (here: it waits until the
// whole execution has returned, bounded by 20s) while a sibling attempt of the same execution - a hedge - succeeds. The
// library must not hold one of its own locks across the listener: the sibling's success has to be delivered while the
// listener is still running. Decided by elapsed time with a wide margin (milliseconds vs 20s); between 10s and 20s inconclusive.
func c14ListenerWaitsForSibling(rep *vk.Report, idx int) {
	r := vk.Rng(rep.Seed, "C14l", idx)
	which := vk.Pick(r, "failure", "failure", "exceeded", "abort", "scheduled")
	released := make(chan struct{})
	var blocked atomic.Int64
	wait := func() {
		if blocked.Add(1) == 1 {
			select {
			case <-released:
			case <-time.After(20 * time.Second):
			}
		}
	}
	rb := retrypolicy.Builder[int]().WithMaxRetries(2).WithDelay(20 * time.Millisecond)
	switch which {
	case "failure":
		rb.OnFailure(func(failsafe.ExecutionEvent[int]) { wait() })
	case "exceeded":
		rb.WithMaxRetries(0).OnRetriesExceeded(func(failsafe.ExecutionEvent[int]) { wait() })
	case "abort":
		rb.AbortOnErrors(errE1).OnAbort(func(failsafe.ExecutionEvent[int]) { wait() })
	case "scheduled":
		rb.OnRetryScheduled(func(failsafe.ExecutionScheduledEvent[int]) { wait() })
	}
	hp := hedgepolicy.BuilderWithDelay[int](time.Millisecond).WithMaxHedges(1).CancelIf(func(_ int, err error) bool { return err == nil }).Build()
	var calls atomic.Int64
	fn := func() (int, error) {
		if calls.Add(1) == 1 {
			return 0, errE1
		}
		return 7, nil
	}
	t0 := time.Now()
	var res int
	var err error
	if r.IntN(3) == 0 {
		res, err = failsafe.NewExecutor[int](hp, rb.Build()).GetAsync(fn).Get()
	} else {
		res, err = failsafe.NewExecutor[int](hp, rb.Build()).Get(fn)
	}
	took := time.Since(t0)
	close(released)
	rep.Eval()
	cs := map[string]any{"blocking_listener": which}
	switch {
	case blocked.Load() == 0:
		rep.Count("listener_scenarios_without_listener_call", 1)
	case took >= 10*time.Second && vk.StalledBetween(t0, t0.Add(took)) >= time.Second:
		rep.Count("listener_scenarios_not_judged_process_stalled", 1)
	case took >= 20*time.Second:
		rep.Violate(idx, prop14("sibling-attempt-blocked-behind-user-listener"), fmt.Sprintf("Hedge(Retry(fn)): the first attempt failed and the retry policy's %s listener was still running (it returns when the execution has returned); the hedged attempt succeeded at once but the call returned (%d,%v) only after %v - the hedged attempt was stuck on a lock the library holds across the listener", which, res, err, took), cs)
	case took >= 10*time.Second:
		rep.Inconclusive(fmt.Sprintf("C14 listener scenario %d took %v (between 10s and 20s)", idx, took))
	case err != nil || res != 7:
		rep.Violate(idx, prop14("hedged-success-not-delivered"), fmt.Sprintf("Hedge(Retry(fn)) with a slow %s listener: the hedged attempt returned (7,nil) but the call returned (%d,%v)", which, res, err), cs)
	default:
		rep.Count("sibling_delivered_while_listener_running", 1)
		rep.Distinct("listener|" + which)
	}
}

func prop14(sig string) string { return "C14/" + sig }
