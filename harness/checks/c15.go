package checks

import (
	"errors"
	"fmt"
	"math/rand/v2"
	"runtime"
	"strings"
	"sync"
	"sync/atomic"
	"time"

	"github.com/failsafe-go/failsafe-go"
	"github.com/failsafe-go/failsafe-go/hedgepolicy"
	"github.com/failsafe-go/failsafe-go/retrypolicy"
	"github.com/failsafe-go/failsafe-go/timeout"

	"verifharness/vk"
)

func init() { register("C15", checkC15) }

type c15Case struct {
	Entry   int      `json:"entry"` // 0 RunAsync 1 RunWithExecutionAsync 2 GetAsync 3 GetWithExecutionAsync
	Comp    string   `json:"composition"`
	FailN   int      `json:"fail_n"`
	Readers []string `json:"readers"`
	Cancel  string   `json:"cancel"` // none | parked | delay | racing | after-done
	ParkAt  int      `json:"park_at"`
	Micro   int64    `json:"micro_ns"`
}

func genC15(r *rand.Rand) (cs c15Case) {
	cs = c15Case{Entry: r.IntN(4), Comp: vk.Pick(r, "retry", "retry", "hedge", "none", "retry>timeout", "timeout>retry", "timeout>hedge", "hedge!", "timeout>hedge!"), FailN: r.IntN(3), Cancel: vk.Pick(r, "none", "none", "parked", "delay", "racing", "racing", "after-done", "in-ondone"), Micro: int64(r.IntN(300)) * 1000}
	if cs.Comp == "none" && (cs.Cancel == "parked" || cs.Cancel == "delay") {
		cs.Comp = "retry" // the ErrExecutionCanceled clause is stated for executions under a retry or hedge policy
	}
	// "timeout>": a never-expiring (10s) Timeout outside the retry/hedge policy; those policies then run on the Timeout's
	// child execution
	outer := strings.HasPrefix(cs.Comp, "timeout>")
	cs.Comp = strings.TrimPrefix(cs.Comp, "timeout>")
	defer func() {
		if outer {
			cs.Comp = "timeout>" + cs.Comp
		}
	}()
	if cs.Comp == "retry>timeout" {
		// attempt 1 is timed out by an inner Timeout, then Cancel lands in the 3s retry delay: ErrExecutionCanceled, not the
		// stale timeout result
		cs.Cancel, cs.FailN = "delay", 1
	} else if cs.Comp != "retry" {
		if cs.Cancel == "delay" {
			cs.Cancel = "parked"
		}
		cs.FailN = 0
	}
	if cs.Cancel == "delay" && cs.FailN == 0 {
		cs.FailN = 1
	}
	if cs.Comp == "hedge!" {
		// a hedge that really starts (1ms delay): every attempt parks, the Cancel comes once the last hedge is parked too,
		// i.e. while the policy waits for a result with no hedge left to start
		cs.Cancel = "parked"
	}
	if cs.Cancel == "parked" {
		cs.ParkAt = 1 + r.IntN(cs.FailN+1)
		cs.Entry |= 1 // needs the Execution to notice cancellation
	}
	if cs.Comp == "retry>timeout" {
		cs.Entry |= 1
	}
	k := 1 + r.IntN(16)
	for i := 0; i < k; i++ {
		cs.Readers = append(cs.Readers, vk.Pick(r, "done", "spin", "get", "result", "error", "get", "spin"))
	}
	return cs
}

var c15Seq atomic.Int64

func checkC15(rep *vk.Report) {
	rep.Rule = "(A) async execution through one of the four async entry points (plain, under retry with scripted failures, under hedge) observed by 1-16 concurrent readers that block on Done, spin on IsDone, or call Get/Result/Error at PRNG-chosen moments, with Cancel issued while the function is parked, inside a 3s retry delay, racing with completion, or after Done; yield points inside record() and executeAsync perturbed. Oracles: after Done is observed IsDone is true and the OnDone listener has returned; IsDone()==true implies Done is closed; Get/Result/Error return only after Done is closed; every reader and the OnDone event see identical values; Cancel while demonstrably in progress under retry/hedge gives ErrExecutionCanceled, a racing Cancel gives the completed result or ErrExecutionCanceled. (A') one Executor value reused for several executions after one of them was cancelled through its ExecutionResult (the others are unaffected); Cancel while a rate limiter placed outermost waits for a permit. (B) E-seq programs run once through the sync entry points and once through the async ones on fresh instances: returned value, invocation count, verdict, events and policy state must agree. Non-trivial: >=2 readers or a Cancel; distinct by (entry, composition, reader kinds, cancel kind, outcome)."
	rep.Assumptions = []string{
		"'in progress' for the exact ErrExecutionCanceled clause means: the function has signalled that it is parked, or OnRetryScheduled has fired for a 3s delay",
		"yield hooks result.record.* / async.* / result.cancel.between (verif tag) only perturb scheduling",
	}
	installYields(rep.Seed)
	defer failsafe.VerifSetYield(nil)
	nA := scale(rep, 6000, 150000)
	vk.Parallel(nA, 16, func(idx int) {
		if rep.Skip(idx) {
			return
		}
		c15Scenario(rep, idx)
	})
	nB := scale(rep, 3000, 60000)
	vk.Parallel(nB, 16, func(i int) {
		idx := nA + i
		if rep.Skip(idx) {
			return
		}
		c15Differential(rep, idx)
	})
	vk.Parallel(scale(rep, 300, 20000), 16, func(i int) {
		if rep.Skip(70000000 + i) {
			return
		}
		c15ExecutorReused(rep, 70000000+i)
		c15CancelDuringLimiterWait(rep, 71000000+i)
	})
	failsafe.VerifSetYield(nil)
	cancelStress(rep, "C15", 50000000, scale(rep, 30000, 500000))
	reportYields(rep)
	rep.Require("readers_total", 1000)
	rep.Require("cancel_while_parked", 50)
	rep.Require("cancel_in_retry_delay", 50)
	rep.Require("cancel_racing", 50)
	rep.Require("spin_readers_that_saw_isdone_true", 100)
	rep.Require("B_programs_compared", 500)
}

func c15Scenario(rep *vk.Report, idx int) {
	r := vk.Rng(rep.Seed, "C15", idx)
	cs := genC15(r)
	var calls atomic.Int64
	parked := make(chan struct{})
	gate := make(chan struct{})
	sched := make(chan struct{})
	var parkOnce, schedOnce sync.Once
	value := 7000 + idx%1000
	body := func(exec failsafe.Execution[int]) (int, error) {
		k := int(calls.Add(1))
		firing := strings.HasSuffix(cs.Comp, "hedge!")
		if cs.Cancel == "parked" && (k == cs.ParkAt || firing) && exec != nil {
			if !firing || k == 2 {
				parkOnce.Do(func() { close(parked) })
			}
			select {
			case <-gate:
			case <-exec.Canceled():
				return 0, errE2
			}
		}
		if cs.Comp == "retry>timeout" && k == 1 && exec != nil {
			<-exec.Canceled() // until the inner Timeout fires
			return 0, errE2
		}
		if k <= cs.FailN {
			return 0, errE1
		}
		return value, nil
	}
	var pols []failsafe.Policy[int]
	if strings.HasPrefix(cs.Comp, "timeout>") {
		pols = append(pols, timeout.With[int](10*time.Second))
	}
	switch strings.TrimPrefix(cs.Comp, "timeout>") {
	case "retry", "retry>timeout":
		rb := retrypolicy.Builder[int]().WithMaxRetries(3).OnRetryScheduled(func(failsafe.ExecutionScheduledEvent[int]) {
			schedOnce.Do(func() { close(sched) })
		})
		if cs.Cancel == "delay" {
			rb.WithDelay(3 * time.Second)
		}
		pols = append(pols, rb.Build())
		if cs.Comp == "retry>timeout" {
			pols = append(pols, timeout.With[int](2*time.Millisecond))
		}
	case "hedge":
		pols = append(pols, hedgepolicy.BuilderWithDelay[int](3*time.Second).Build())
	case "hedge!":
		pols = append(pols, hedgepolicy.BuilderWithDelay[int](time.Millisecond).WithMaxHedges(1).Build())
	}
	var onDoneExit atomic.Int64
	var evRes int
	var evErr error
	var doneEvents atomic.Int64
	var ar failsafe.ExecutionResult[int]
	arReady := make(chan struct{})
	ex := failsafe.NewExecutor[int](pols...).OnDone(func(e failsafe.ExecutionDoneEvent[int]) {
		evRes, evErr = e.Result, e.Error
		doneEvents.Add(1)
		runtime.Gosched()
		if cs.Cancel == "in-ondone" {
			// the execution has completed and announced its result: a Cancel from now on must not change what readers get
			<-arReady
			ar.Cancel()
		}
		onDoneExit.Store(c15Seq.Add(1))
	})
	switch cs.Entry {
	case 0:
		ar = ex.RunAsync(func() error { _, e := body(nil); return e })
	case 1:
		ar = ex.RunWithExecutionAsync(func(exec failsafe.Execution[int]) error { _, e := body(exec); return e })
	case 2:
		ar = ex.GetAsync(func() (int, error) { return body(nil) })
	default:
		ar = ex.GetWithExecutionAsync(body)
	}
	close(arReady)
	var bad atomic.Pointer[string]
	fail := func(sig, msg string) {
		s := sig + "\x00" + msg
		bad.CompareAndSwap(nil, &s)
	}
	type obs struct {
		res int
		err error
	}
	results := make([]obs, len(cs.Readers))
	var wg sync.WaitGroup
	closed := func() bool {
		select {
		case <-ar.Done():
			return true
		default:
			return false
		}
	}
	for i, kind := range cs.Readers {
		rr := vk.Rng(rep.Seed, "C15r", idx*32+i)
		wg.Add(1)
		go func(i int, kind string) {
			defer wg.Done()
			time.Sleep(time.Duration(rr.IntN(200)) * time.Microsecond)
			switch kind {
			case "done":
				select {
				case <-ar.Done():
				case <-time.After(20 * time.Second):
					fail("never-done", "Done was not closed within 20s")
					return
				}
				if !ar.IsDone() {
					fail("isdone-false-after-done", "a reader passed <-Done() and then saw IsDone()==false")
				}
				if onDoneExit.Load() == 0 {
					fail("done-before-listeners", "Done was observed closed before the OnDone listener had returned")
				}
			case "spin":
				dl := time.Now().Add(20 * time.Second)
				for !ar.IsDone() {
					if time.Now().After(dl) {
						fail("never-done", "IsDone never became true within 20s")
						return
					}
					if rr.IntN(4) == 0 {
						runtime.Gosched()
					}
				}
				rep.Count("spin_readers_that_saw_isdone_true", 1)
				if !closed() {
					fail("isdone-true-before-done-closed", "a reader saw IsDone()==true while Done was not yet closed")
				}
			}
			var o obs
			switch kind {
			case "result":
				o.res = ar.Result()
				o.err = ar.Error()
			case "error":
				o.err = ar.Error()
				o.res = ar.Result()
			default:
				o.res, o.err = ar.Get()
			}
			if !closed() || !ar.IsDone() {
				fail("get-returned-before-done", fmt.Sprintf("%s-reader: Get/Result/Error returned while Done is not closed or IsDone is false", kind))
			}
			if onDoneExit.Load() == 0 {
				fail("get-returned-before-listeners", fmt.Sprintf("%s-reader: Get/Result/Error returned before the OnDone listener had returned", kind))
			}
			results[i] = o
		}(i, kind)
	}
	// cancellation controller
	inProgress := false
	switch cs.Cancel {
	case "parked":
		select {
		case <-parked:
			inProgress = true
			time.Sleep(time.Duration(cs.Micro))
			ar.Cancel()
			rep.Count("cancel_while_parked", 1)
		case <-time.After(5 * time.Second):
			close(gate)
		}
	case "delay":
		select {
		case <-sched:
			inProgress = true
			time.Sleep(time.Duration(cs.Micro))
			ar.Cancel()
			rep.Count("cancel_in_retry_delay", 1)
		case <-time.After(5 * time.Second):
		}
	case "racing":
		time.Sleep(time.Duration(cs.Micro / 10))
		ar.Cancel()
		rep.Count("cancel_racing", 1)
	case "after-done":
		<-ar.Done()
		ar.Cancel()
	}
	wg.Wait()
	rep.Eval()
	rep.Count("readers_total", int64(len(cs.Readers)))
	res, err := ar.Get()
	viol := func(sig, msg string) {
		rep.Violate(idx, "C15/"+sig, msg+fmt.Sprintf(" (case %+v; final (%d,%v))", cs, res, err), cs)
	}
	if s := bad.Load(); s != nil {
		sig, msg, _ := strings.Cut(*s, "\x00")
		viol(sig, msg)
		return
	}
	if doneEvents.Load() != 1 {
		viol("ondone-count", fmt.Sprintf("OnDone fired %d times", doneEvents.Load()))
		return
	}
	runEntry := cs.Entry < 2
	for i, o := range results {
		if o.res != res || o.err != err {
			viol("readers-disagree", fmt.Sprintf("reader %d (%s) got (%d,%v)", i, cs.Readers[i], o.res, o.err))
			return
		}
	}
	if evRes != res && !runEntry || evErr != err {
		viol("ondone-event-differs", fmt.Sprintf("OnDone event carries (%d,%v)", evRes, evErr))
		return
	}
	want := value
	if runEntry {
		want = 0
	}
	completed := res == want && err == nil
	cancelled := errors.Is(err, failsafe.ErrExecutionCanceled)
	switch {
	case inProgress:
		if !cancelled {
			viol("cancel-in-progress-not-reported", "Cancel was issued while the execution was demonstrably in progress under a retry/hedge policy, result is not ErrExecutionCanceled")
			return
		}
	case cs.Cancel == "racing":
		if !completed && !cancelled {
			viol("racing-cancel-result", "a racing Cancel produced neither the completed result nor ErrExecutionCanceled")
			return
		}
	default:
		if !completed {
			viol("wrong-result", fmt.Sprintf("expected (%d,nil)", want))
			return
		}
	}
	if len(cs.Readers) >= 2 || cs.Cancel != "none" {
		kinds := map[string]bool{}
		for _, k := range cs.Readers {
			kinds[k] = true
		}
		rep.Distinct(fmt.Sprintf("%d|%s|%v|%s|%v|%d", cs.Entry, cs.Comp, kinds, cs.Cancel, cancelled, cs.FailN))
		if rep.WantSample() && cs.Cancel != "none" {
			rep.Sample(map[string]any{"case": cs, "final": fmt.Sprintf("(%d,%v)", res, err)})
		}
	}
}

// c15Differential runs an E-seq program through the sync entry points and, on fresh instances, through the async ones.
func c15Differential(rep *vk.Report, idx int) {
	r := vk.Rng(rep.Seed, "C15B", idx)
	prog := genProgram(r, "")
	syncP, asyncP := prog, prog
	syncP.Execs = append([]execSpec(nil), prog.Execs...)
	asyncP.Execs = append([]execSpec(nil), prog.Execs...)
	for i := range prog.Execs {
		syncP.Execs[i].Entry = prog.Execs[i].Entry & 3
		asyncP.Execs[i].Entry = prog.Execs[i].Entry&3 | 4
	}
	tries := 1
	if prog.hasShort {
		tries = 3
	}
	var detail string
	var facet string
	for t := 0; t < tries; t++ {
		facet, detail = "", ""
		m := newMprog(prog) // only used to bound invocations (run-away guard) and to detect divergence
		a, b := newRprog(syncP), newRprog(asyncP)
		for xi := range prog.Execs {
			ml, div, to := m.runExec(xi)
			if div {
				break
			}
			inv := len(facetLines(ml, "inv")) + 2
			la, ra, da := a.runExec(xi, inv, to)
			lb, rb, db := b.runExec(xi, inv, to)
			if ra || rb || da || db {
				break
			}
			facet, detail = compareLogs(lb, la, []string{"ret", "inv", "verdict", "events", "state", "cache", "fallback"})
			if facet != "" {
				detail = fmt.Sprintf("execution #%d: async vs sync: %s", xi, strings.ReplaceAll(strings.ReplaceAll(detail, "observed", "async"), "model", "sync"))
				break
			}
			rep.Count("B_executions_compared", 1)
		}
		if facet == "" {
			break
		}
	}
	rep.Eval()
	rep.Count("B_programs_compared", 1)
	if facet != "" {
		rep.Violate(idx, "C15/async-differs-from-sync", fmt.Sprintf("composition %s: %s", prog.kinds(), detail), prog)
		return
	}
	if len(prog.Pols) >= 2 {
		rep.Distinct("B|" + prog.kinds())
	}
}
