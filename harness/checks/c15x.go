package checks

import (
	"errors"
	"fmt"
	"time"

	"github.com/failsafe-go/failsafe-go"
	"github.com/failsafe-go/failsafe-go/hedgepolicy"
	"github.com/failsafe-go/failsafe-go/ratelimiter"
	"github.com/failsafe-go/failsafe-go/retrypolicy"

	"verifharness/vk"
)

// c15ExecutorReused: one Executor value is used for several async executions. Cancelling one ExecutionResult concerns
// that execution only: executions started from the same executor before or after it complete with what the equivalent
// synchronous execution returns.
func c15ExecutorReused(rep *vk.Report, idx int) {
	r := vk.Rng(rep.Seed, "C15u", idx)
	ex := failsafe.NewExecutor[int](retrypolicy.Builder[int]().WithMaxRetries(2).Build())
	parked := make(chan struct{})
	first := ex.GetWithExecutionAsync(func(e failsafe.Execution[int]) (int, error) {
		close(parked)
		<-e.Canceled()
		return 0, errE2
	})
	<-parked
	first.Cancel()
	_, err1 := first.Get()
	rep.Eval()
	if !errors.Is(err1, failsafe.ErrExecutionCanceled) {
		rep.Violate(idx, "C15/cancel-in-progress-not-reported", fmt.Sprintf("first execution of a reused executor, cancelled while parked under a retry policy: %v", err1), nil)
		return
	}
	n := 1 + r.IntN(3)
	for i := 0; i < n; i++ {
		want := 4200 + i
		entry := r.IntN(3)
		var got int
		var err error
		switch entry {
		case 0:
			got, err = ex.GetAsync(func() (int, error) { return want, nil }).Get()
		case 1:
			got, err = ex.GetWithExecutionAsync(func(e failsafe.Execution[int]) (int, error) {
				if e.IsCanceled() {
					return 0, errE3
				}
				return want, nil
			}).Get()
		default:
			got, err = ex.Get(func() (int, error) { return want, nil })
		}
		if err != nil || got != want {
			rep.Violate(idx, "C15/cancel-leaks-into-other-executions", fmt.Sprintf("an executor whose first async execution was cancelled through its ExecutionResult: later execution #%d (entry %d) returned (%d,%v), the synchronous equivalent returns (%d,nil)", i, entry, got, err, want), nil)
			return
		}
	}
	rep.Count("executor_reused_after_cancel", 1)
	rep.Distinct(fmt.Sprintf("reuse|%d", n))
}

// c15CancelDuringLimiterWait: the rate limiter is the outermost policy, a retry or hedge policy inside it; the async
// execution is cancelled through its ExecutionResult while it waits for a permit (next permit 1s away, max wait 2s).
func c15CancelDuringLimiterWait(rep *vk.Report, idx int) {
	r := vk.Rng(rep.Seed, "C15l", idx)
	rl := ratelimiter.SmoothBuilderWithMaxRate[int](time.Second).WithMaxWaitTime(2 * time.Second).Build()
	rl.TryAcquirePermit()
	inner := vk.Pick(r, "retry", "hedge")
	pols := []failsafe.Policy[int]{rl}
	if inner == "retry" {
		pols = append(pols, retrypolicy.Builder[int]().WithMaxRetries(1).Build())
	} else {
		pols = append(pols, hedgepolicy.WithDelay[int](time.Hour))
	}
	ran := false
	t0 := time.Now()
	var ar failsafe.ExecutionResult[int]
	switch r.IntN(2) {
	case 0:
		ar = failsafe.NewExecutor[int](pols...).GetAsync(func() (int, error) { ran = true; return 1, nil })
	default:
		ar = failsafe.NewExecutor[int](pols...).RunAsync(func() error { ran = true; return nil })
	}
	time.Sleep(time.Duration(2+r.IntN(20)) * time.Millisecond)
	ar.Cancel()
	_, err := ar.Get()
	took := time.Since(t0)
	rep.Eval()
	cs := map[string]any{"inside": inner}
	if ran || took >= time.Second {
		if took >= time.Second && !ran && vk.StalledBetween(t0, t0.Add(took)) < 250*time.Millisecond {
			rep.Violate(idx, "C15/waited-out-the-limiter", fmt.Sprintf("RateLimiter(%s(fn)) cancelled through its ExecutionResult while waiting for a permit 1s away completed only after %v", inner, took), cs)
		}
		return
	}
	if !errors.Is(err, failsafe.ErrExecutionCanceled) {
		rep.Violate(idx, "C15/cancel-in-progress-not-reported", fmt.Sprintf("RateLimiter(%s(fn)): Cancel while the execution waited for a permit: result %v, want ErrExecutionCanceled", inner, err), cs)
		return
	}
	rep.Count("cancel_during_limiter_wait", 1)
	rep.Distinct("rlwait|" + inner)
}
