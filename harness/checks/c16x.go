package checks

import (
	"context"
	"errors"
	"fmt"
	"sync/atomic"
	"time"

	"github.com/failsafe-go/failsafe-go"
	"github.com/failsafe-go/failsafe-go/bulkhead"
	"github.com/failsafe-go/failsafe-go/ratelimiter"
	"github.com/failsafe-go/failsafe-go/retrypolicy"
	"github.com/failsafe-go/failsafe-go/timeout"

	"verifharness/vk"
)

// c16Rejections: rejection events of waiting policies fire exactly when the corresponding rejection happened - an
// execution cancelled (context, deadline or an outer Timeout) while it queues for a bulkhead or rate limiter permit was
// not rejected by that policy.
func c16Rejections(rep *vk.Report, idx int) {
	r := vk.Rng(rep.Seed, "C16x", idx)
	kind := vk.Pick(r, "bulkhead", "limiter")
	how := vk.Pick(r, "refused", "ctx-cancel", "deadline", "outer-timeout", "admitted")
	async := r.IntN(3) == 0
	var events atomic.Int64
	var pol failsafe.Policy[int]
	wait := 100 * time.Millisecond
	if how == "refused" {
		wait = time.Duration(r.IntN(3)) * time.Millisecond
	}
	switch kind {
	case "bulkhead":
		bh := bulkhead.Builder[int](1).WithMaxWaitTime(wait).OnFull(func(failsafe.ExecutionEvent[int]) { events.Add(1) }).Build()
		if how != "admitted" {
			bh.TryAcquirePermit()
		}
		pol = bh
	default:
		rl := ratelimiter.SmoothBuilderWithMaxRate[int](time.Second).WithMaxWaitTime(wait).OnRateLimitExceeded(func(failsafe.ExecutionEvent[int]) { events.Add(1) }).Build()
		if how != "admitted" {
			rl.TryAcquirePermit()
		}
		pol = rl
	}
	pols := []failsafe.Policy[int]{pol}
	ctx, cancel := context.WithCancel(context.Background())
	defer cancel()
	switch how {
	case "ctx-cancel":
		time.AfterFunc(time.Duration(200+r.IntN(2000))*time.Microsecond, cancel)
	case "deadline":
		var c context.CancelFunc
		ctx, c = context.WithTimeout(ctx, time.Duration(200+r.IntN(2000))*time.Microsecond)
		defer c()
	case "outer-timeout":
		pols = []failsafe.Policy[int]{timeout.With[int](time.Duration(200+r.IntN(2000)) * time.Microsecond), pol}
	}
	ran := false
	ex := failsafe.NewExecutor[int](pols...).WithContext(ctx)
	var err error
	t0 := time.Now()
	if async {
		_, err = ex.GetAsync(func() (int, error) { ran = true; return 1, nil }).Get()
	} else {
		_, err = ex.Get(func() (int, error) { ran = true; return 1, nil })
	}
	elapsed := time.Since(t0)
	rep.Eval()
	refused := errors.Is(err, bulkhead.ErrFull) || errors.Is(err, ratelimiter.ErrExceeded)
	if kind == "bulkhead" && errors.Is(err, bulkhead.ErrFull) && elapsed < wait {
		// the only permit is held for the whole scenario: a rejection can only come from the max wait time running out
		rep.Violate(idx, "C16/rejected-before-max-wait", fmt.Sprintf("bulkhead, %s (max wait %v, async=%v): rejected with ErrFull (OnFull fired %d times) after only %v", how, wait, async, events.Load(), elapsed), map[string]any{"policy": kind, "how": how, "async": async})
		return
	}
	want := int64(0)
	if refused {
		want = 1
	}
	rep.Count("rejection_scenarios_"+how, 1)
	if events.Load() != want || refused && ran {
		rep.Violate(idx, "C16/rejection-event-mismatch", fmt.Sprintf("%s, %s (max wait %v, async=%v): result %v, function ran=%v, rejection listener fired %d times (want %d)", kind, how, wait, async, err, ran, events.Load(), want), map[string]any{"policy": kind, "how": how, "async": async})
		return
	}
	rep.Distinct(fmt.Sprintf("rej|%s|%s|%v|%v", kind, how, async, refused))
}

// c16ExecutorCopies: WithContext returns a new copy (also for a nil context); listeners registered on a derived executor
// belong to it alone, and each execution reports exactly once to the listeners of the executor it ran on.
func c16ExecutorCopies(rep *vk.Report, idx int) {
	r := vk.Rng(rep.Seed, "C16e", idx)
	var sharedDone, sharedSucc, sharedFail, derivedDone atomic.Int64
	// all three kinds of completion listener are registered on the original before WithContext: the copy inherits them
	shared := failsafe.NewExecutor[int](retrypolicy.Builder[int]().WithMaxRetries(0).Build()).
		OnDone(func(failsafe.ExecutionDoneEvent[int]) { sharedDone.Add(1) }).
		OnSuccess(func(failsafe.ExecutionDoneEvent[int]) { sharedSucc.Add(1) }).
		OnFailure(func(failsafe.ExecutionDoneEvent[int]) { sharedFail.Add(1) })
	var ctx context.Context // nil: "no context to configure"
	kind := vk.Pick(r, "nil", "background", "value")
	switch kind {
	case "background":
		ctx = context.Background()
	case "value":
		ctx = context.WithValue(context.Background(), c14Key{}, 1)
	}
	derived := shared.WithContext(ctx).OnDone(func(failsafe.ExecutionDoneEvent[int]) { derivedDone.Add(1) })
	n1, n2 := 1+r.IntN(3), 1+r.IntN(3)
	failures := 0
	run := func(ex failsafe.Executor[int]) {
		fn := func() (int, error) { return 1, nil }
		if r.IntN(3) == 0 {
			failures++
			fn = func() (int, error) { return 0, errE1 } // the zero-retry policy gives up at once: a failed execution
		}
		if r.IntN(2) == 0 {
			ex.Get(fn)
		} else {
			ex.GetAsync(fn).Get()
		}
	}
	for i := 0; i < n1; i++ {
		run(shared)
	}
	for i := 0; i < n2; i++ {
		run(derived)
	}
	rep.Eval()
	if sharedDone.Load() != int64(n1) || sharedSucc.Load() != int64(n1+n2-failures) || sharedFail.Load() != int64(failures) || derivedDone.Load() != int64(n2) {
		rep.Violate(idx, "C16/executor-copy-listeners", fmt.Sprintf("WithContext(%s): %d executions on the original executor and %d on the derived one, %d of them failing: original OnDone fired %d times (want %d), original OnSuccess (inherited by the copy) %d (want %d), original OnFailure (inherited by the copy) %d (want %d), derived OnDone %d (want %d)", kind, n1, n2, failures, sharedDone.Load(), n1, sharedSucc.Load(), n1+n2-failures, sharedFail.Load(), failures, derivedDone.Load(), n2), map[string]any{"ctx": kind})
		return
	}
	rep.Distinct(fmt.Sprintf("copies|%s|%d|%d", kind, n1, n2))
}

// c16AsyncCancelConsistency: an async execution without a retry or hedge policy whose function ignores cancellation
// completes with the function's own outcome; Cancel while it runs (or from the OnDone listener) must not make the
// executor events disagree with what Get returns.
func c16AsyncCancelConsistency(rep *vk.Report, idx int) {
	r := vk.Rng(rep.Seed, "C16a", idx)
	comp := vk.Pick(r, "none", "bulkhead", "limiter")
	when := vk.Pick(r, "while-running", "in-ondone", "context-while-running")
	var pols []failsafe.Policy[int]
	switch comp {
	case "bulkhead":
		pols = append(pols, bulkhead.With[int](2))
	case "limiter":
		pols = append(pols, ratelimiter.Smooth[int](1000, time.Second))
	}
	parked, gate := make(chan struct{}), make(chan struct{})
	var evs []string
	var ar failsafe.ExecutionResult[int]
	arReady := make(chan struct{})
	ctx, cancelCtx := context.WithCancel(context.Background())
	defer cancelCtx()
	rec := func(name string) func(failsafe.ExecutionDoneEvent[int]) {
		return func(e failsafe.ExecutionDoneEvent[int]) {
			evs = append(evs, fmt.Sprintf("%s(%d,%v)", name, e.Result, e.Error))
			if name == "done" && when == "in-ondone" {
				<-arReady
				ar.Cancel()
			}
		}
	}
	value := 900 + idx%50
	ex := failsafe.NewExecutor[int](pols...).WithContext(ctx).OnSuccess(rec("success")).OnFailure(rec("failure")).OnDone(rec("done"))
	ar = ex.GetAsync(func() (int, error) {
		close(parked)
		<-gate // ignores cancellation
		return value, nil
	})
	close(arReady)
	<-parked
	switch when {
	case "while-running":
		ar.Cancel()
	case "context-while-running":
		cancelCtx()
	}
	close(gate)
	res, err := ar.Get()
	rep.Eval()
	want := fmt.Sprintf("[success(%d,<nil>) done(%d,<nil>)]", value, value)
	if fmt.Sprint(evs) != want || res != value || err != nil {
		rep.Violate(idx, "C16/async-events-disagree-with-result", fmt.Sprintf("async execution through %s, cancelled %s, function ignores cancellation and returns (%d,nil): executor events %v, Get returned (%d,%v)", comp, when, value, evs, res, err), map[string]any{"composition": comp, "when": when})
		return
	}
	rep.Distinct(fmt.Sprintf("asynccancel|%s|%s", comp, when))
}
