package checks

import (
	"context"
	"errors"
	"fmt"
	"sync/atomic"
	"time"

	"github.com/failsafe-go/failsafe-go"
	"github.com/failsafe-go/failsafe-go/bulkhead"
	"github.com/failsafe-go/failsafe-go/ratelimiter"
	"github.com/failsafe-go/failsafe-go/timeout"

	"verifharness/vk"
)

// c16Rejections: rejection events of waiting policies fire exactly when the corresponding rejection happened - an
// execution cancelled (context, deadline or an outer Timeout) while it queues for a bulkhead or rate limiter permit was
// not rejected by that policy.
func c16Rejections(rep *vk.Report, idx int) {
	r := vk.Rng(rep.Seed, "C16x", idx)
	kind := vk.Pick(r, "bulkhead", "limiter")
	how := vk.Pick(r, "refused", "ctx-cancel", "deadline", "outer-timeout", "admitted")
	async := r.IntN(3) == 0
	var events atomic.Int64
	var pol failsafe.Policy[int]
	wait := 100 * time.Millisecond
	if how == "refused" {
		wait = time.Duration(r.IntN(3)) * time.Millisecond
	}
	switch kind {
	case "bulkhead":
		bh := bulkhead.Builder[int](1).WithMaxWaitTime(wait).OnFull(func(failsafe.ExecutionEvent[int]) { events.Add(1) }).Build()
		if how != "admitted" {
			bh.TryAcquirePermit()
		}
		pol = bh
	default:
		rl := ratelimiter.SmoothBuilderWithMaxRate[int](time.Second).WithMaxWaitTime(wait).OnRateLimitExceeded(func(failsafe.ExecutionEvent[int]) { events.Add(1) }).Build()
		if how != "admitted" {
			rl.TryAcquirePermit()
		}
		pol = rl
	}
	pols := []failsafe.Policy[int]{pol}
	ctx, cancel := context.WithCancel(context.Background())
	defer cancel()
	switch how {
	case "ctx-cancel":
		time.AfterFunc(time.Duration(200+r.IntN(2000))*time.Microsecond, cancel)
	case "deadline":
		var c context.CancelFunc
		ctx, c = context.WithTimeout(ctx, time.Duration(200+r.IntN(2000))*time.Microsecond)
		defer c()
	case "outer-timeout":
		pols = []failsafe.Policy[int]{timeout.With[int](time.Duration(200+r.IntN(2000)) * time.Microsecond), pol}
	}
	ran := false
	ex := failsafe.NewExecutor[int](pols...).WithContext(ctx)
	var err error
	t0 := time.Now()
	if async {
		_, err = ex.GetAsync(func() (int, error) { ran = true; return 1, nil }).Get()
	} else {
		_, err = ex.Get(func() (int, error) { ran = true; return 1, nil })
	}
	elapsed := time.Since(t0)
	rep.Eval()
	refused := errors.Is(err, bulkhead.ErrFull) || errors.Is(err, ratelimiter.ErrExceeded)
	if kind == "bulkhead" && errors.Is(err, bulkhead.ErrFull) && elapsed < wait {
		// the only permit is held for the whole scenario: a rejection can only come from the max wait time running out
		rep.Violate(idx, "C16/rejected-before-max-wait", fmt.Sprintf("bulkhead, %s (max wait %v, async=%v): rejected with ErrFull (OnFull fired %d times) after only %v", how, wait, async, events.Load(), elapsed), map[string]any{"policy": kind, "how": how, "async": async})
		return
	}
	want := int64(0)
	if refused {
		want = 1
	}
	rep.Count("rejection_scenarios_"+how, 1)
	if events.Load() != want || refused && ran {
		rep.Violate(idx, "C16/rejection-event-mismatch", fmt.Sprintf("%s, %s (max wait %v, async=%v): result %v, function ran=%v, rejection listener fired %d times (want %d)", kind, how, wait, async, err, ran, events.Load(), want), map[string]any{"policy": kind, "how": how, "async": async})
		return
	}
	rep.Distinct(fmt.Sprintf("rej|%s|%s|%v|%v", kind, how, async, refused))
}
