package checks

import (
	"context"
	"errors"
	"fmt"
	"runtime"
	"sync"
	"sync/atomic"
	"time"

	"github.com/failsafe-go/failsafe-go"
	"github.com/failsafe-go/failsafe-go/circuitbreaker"
	"github.com/failsafe-go/failsafe-go/common"
	"github.com/failsafe-go/failsafe-go/hedgepolicy"
	"github.com/failsafe-go/failsafe-go/ratelimiter"
	"github.com/failsafe-go/failsafe-go/retrypolicy"

	"verifharness/vk"
)

// c16ConcurrentBreakerEvents: several goroutines drive ONE breaker (delay 0, low thresholds) through executions, standalone
// records and manual Open/HalfOpen/Close at the same time; the listeners (which, like real logging or metrics listeners,
// take a little while) append what they are told to a log. Events are delivered in transition order, so the log must be a
// connected path from the initial closed state - every event's old state is the previous event's new state - the specific
// listeners must have been called for exactly the same transitions, and at quiescence the breaker is in the state the last
// event announced.
func c16ConcurrentBreakerEvents(rep *vk.Report, idx int) {
	r := vk.Rng(rep.Seed, "C16b", idx)
	type ev struct{ old, new circuitbreaker.State }
	var mu sync.Mutex
	var generic, specific []ev
	slow := r.IntN(3)
	dawdle := func(k int) {
		switch slow {
		case 1:
			runtime.Gosched()
		case 2:
			if k%3 == 0 {
				time.Sleep(20 * time.Microsecond)
			}
		}
	}
	rec := func(log *[]ev) func(circuitbreaker.StateChangedEvent) {
		return func(e circuitbreaker.StateChangedEvent) {
			dawdle(int(e.NewState))
			mu.Lock()
			*log = append(*log, ev{e.OldState, e.NewState})
			mu.Unlock()
		}
	}
	b := circuitbreaker.Builder[int]().WithDelay(0).WithSuccessThreshold(uint(1 + r.IntN(2)))
	if r.IntN(2) == 0 {
		b.WithFailureThreshold(uint(1 + r.IntN(2)))
	} else {
		b.WithFailureThresholdRatio(1, uint(1+r.IntN(3)))
	}
	b.OnStateChanged(rec(&generic)).OnOpen(rec(&specific)).OnHalfOpen(rec(&specific)).OnClose(rec(&specific))
	cb := b.Build()
	g := 2 + r.IntN(7)
	per := 20 + r.IntN(60)
	var wg sync.WaitGroup
	for w := 0; w < g; w++ {
		wr := vk.Rng(rep.Seed, "C16bw", idx*64+w)
		wg.Add(1)
		go func() {
			defer wg.Done()
			for i := 0; i < per; i++ {
				switch wr.IntN(9) {
				case 0:
					cb.Open()
				case 1:
					cb.HalfOpen()
				case 2:
					cb.Close()
				case 3:
					cb.RecordFailure()
				case 4:
					cb.RecordSuccess()
				case 5, 6:
					failsafe.Get(func() (int, error) { return 0, errE1 }, cb)
				default:
					failsafe.Get(func() (int, error) { return 1, nil }, cb)
				}
			}
		}()
	}
	wg.Wait()
	rep.Eval()
	cs := map[string]any{"goroutines": g, "ops_each": per, "listener_pace": slow}
	prev := circuitbreaker.ClosedState
	for i, e := range generic {
		if e.old != prev || e.old == e.new {
			lo := max(0, i-3)
			rep.Violate(idx, "C16/breaker-events-not-a-connected-path", fmt.Sprintf("%d goroutines on one breaker: OnStateChanged event #%d is %v -> %v but the previous event left the breaker %v (events %d..%d: %v)", g, i, e.old, e.new, prev, lo, i, generic[lo:i+1]), cs)
			return
		}
		prev = e.new
	}
	if cb.State() != prev {
		rep.Violate(idx, "C16/breaker-events-not-a-connected-path", fmt.Sprintf("%d goroutines on one breaker: after all of them finished the breaker is %v but the last OnStateChanged event announced %v (%d events)", g, cb.State(), prev, len(generic)), cs)
		return
	}
	if len(specific) != len(generic) {
		rep.Violate(idx, "C16/breaker-specific-and-generic-events-differ", fmt.Sprintf("%d OnStateChanged events but %d OnOpen/OnHalfOpen/OnClose events", len(generic), len(specific)), cs)
		return
	}
	for i := range generic {
		if generic[i] != specific[i] {
			rep.Violate(idx, "C16/breaker-specific-and-generic-events-differ", fmt.Sprintf("transition #%d: OnStateChanged saw %v, the specific listener saw %v", i, generic[i], specific[i]), cs)
			return
		}
	}
	rep.Count("concurrent_breaker_event_rounds", 1)
	rep.Count("concurrent_breaker_events", int64(len(generic)))
	if len(generic) >= 3 {
		rep.Distinct(fmt.Sprintf("cbev|%d|%d|%d", g, slow, min(len(generic)/10, 20)))
	}
}

// c16ExceededOnce: "OnRetriesExceeded and OnAbort at most once [per policy and execution]" where the same retry policy is
// entered several times within one execution: as the inner policy of Retry(Retry(fn)) when the outer policy retries
// after the inner one gave up, and under Hedge(Retry(fn)) when hedged attempts run after the first one gave up. The inner
// policy gives up by max retries, by max duration, or aborts.
func c16ExceededOnce(rep *vk.Report, idx int) {
	r := vk.Rng(rep.Seed, "C16x", idx)
	nest := vk.Pick(r, "retry>retry", "retry>retry", "hedge>retry")
	giveUp := vk.Pick(r, "max-retries", "max-duration", "max-duration", "abort")
	var exceeded, aborted, polFailure, polSuccess, calls atomic.Int64
	ib := retrypolicy.Builder[int]().WithDelay(200 * time.Microsecond).
		OnRetriesExceeded(func(failsafe.ExecutionEvent[int]) { exceeded.Add(1) }).
		OnAbort(func(failsafe.ExecutionEvent[int]) { aborted.Add(1) }).
		OnFailure(func(failsafe.ExecutionEvent[int]) { polFailure.Add(1) }).
		OnSuccess(func(failsafe.ExecutionEvent[int]) { polSuccess.Add(1) })
	switch giveUp {
	case "max-retries":
		ib.WithMaxRetries(1 + r.IntN(2))
	case "max-duration":
		ib.WithMaxRetries(-1).WithMaxDuration(time.Duration(1+r.IntN(3)) * time.Millisecond)
	case "abort":
		ib.WithMaxRetries(5).AbortOnErrors(errE2)
	}
	inner := ib.Build()
	var pols []failsafe.Policy[int]
	if nest == "retry>retry" {
		pols = []failsafe.Policy[int]{retrypolicy.Builder[int]().WithMaxRetries(2).Build(), inner}
	} else {
		pols = []failsafe.Policy[int]{hedgepolicy.BuilderWithDelay[int](3 * time.Millisecond).WithMaxHedges(2).CancelIf(func(_ int, err error) bool { return err == nil }).Build(), inner}
	}
	fn := func() (int, error) {
		k := calls.Add(1)
		if giveUp == "abort" && k >= 2 {
			return 0, errE2
		}
		return 0, errE1
	}
	var err error
	var execSuccess, execFailure atomic.Int64
	ex := failsafe.NewExecutor[int](pols...).
		OnSuccess(func(failsafe.ExecutionDoneEvent[int]) { execSuccess.Add(1) }).
		OnFailure(func(failsafe.ExecutionDoneEvent[int]) { execFailure.Add(1) })
	if r.IntN(3) == 0 {
		_, err = ex.GetAsync(fn).Get()
	} else {
		_, err = ex.Get(fn)
	}
	time.Sleep(time.Millisecond)
	rep.Eval()
	cs := map[string]any{"nesting": nest, "inner_gives_up_by": giveUp}
	// every invocation failed with an error the retry policy handles and the policy gave up: whatever the caller is handed
	// (ExceededError, the abort outcome, or a later attempt's raw error passed through after the policy had given up), the
	// execution failed, and the executor must say so
	if err != nil && (execFailure.Load() != 1 || execSuccess.Load() != 0) {
		rep.Violate(idx, "C16/executor-verdict-does-not-match-result", fmt.Sprintf("%s, inner retry policy gives up by %s, every invocation fails: the call returned %v, executor OnSuccess fired %d times and OnFailure %d times (want 0 and 1)", nest, giveUp, err, execSuccess.Load(), execFailure.Load()), cs)
		return
	}
	// A13: an inner policy that aborted is asked again when the outer policy retries and aborts again on the same outcome;
	// whether those count as "the" abort of the execution is not stated, so only the exceeded event is held to "once"
	if exceeded.Load() > 1 || exceeded.Load() > 0 && aborted.Load() > 0 {
		rep.Violate(idx, "C16/exceeded-event-more-than-once", fmt.Sprintf("%s, inner retry policy gives up by %s: within one execution its OnRetriesExceeded fired %d times and OnAbort %d times (function invoked %d times, result error %v)", nest, giveUp, exceeded.Load(), aborted.Load(), calls.Load(), err), cs)
		return
	}
	if exceeded.Load() == 1 || aborted.Load() > 0 {
		rep.Count("inner_retry_policy_reentered_after_giving_up", 1)
		rep.Distinct(fmt.Sprintf("xonce|%s|%s|%d", nest, giveUp, min(calls.Load(), 12)))
	}
}

// c16LimiterWaitCancelledAfterRejection: Retry(RateLimiter(fn)) on a virtual stopwatch. Attempt 1 arrives when the next
// permit is further away than the max wait: refused, OnRateLimitExceeded fires. While the retry delay passes the clock
// moves on, so attempt 2 is within the max wait and waits (a real timer) for its permit; the execution is then cancelled
// during that wait. Only attempt 1 was a rejection: the rejection listener must have fired exactly once, and the
// application of the limiter that was cancelled while waiting must not report ErrExceeded.
func c16LimiterWaitCancelledAfterRejection(rep *vk.Report, idx int) {
	r := vk.Rng(rep.Seed, "C16l", idx)
	var now atomic.Int64
	interval := 200 * time.Millisecond
	maxWait := 100 * time.Millisecond
	var exceededEvents, apps, appsExceeded atomic.Int64
	b := ratelimiter.SmoothBuilderWithMaxRate[int](interval).WithMaxWaitTime(maxWait).OnRateLimitExceeded(func(failsafe.ExecutionEvent[int]) { exceededEvents.Add(1) })
	rl := ratelimiter.VerifWithStopwatch(b.Build(), func() time.Duration { return time.Duration(now.Load()) })
	rl.TryAcquirePermit() // the next permit is one interval away
	source := vk.Pick(r, "ctx", "async")
	waiting := make(chan struct{})
	probe := &probePolicy{
		before: func(failsafe.Execution[int]) any {
			if apps.Add(1) == 2 {
				close(waiting) // attempt 2 is about to ask the limiter
			}
			return nil
		},
		after: func(_ failsafe.Execution[int], _ any, res *common.PolicyResult[int]) {
			if errors.Is(res.Error, ratelimiter.ErrExceeded) {
				appsExceeded.Add(1)
			}
		},
	}
	rp := retrypolicy.Builder[int]().WithMaxRetries(2).WithDelay(time.Millisecond).OnRetryScheduled(func(failsafe.ExecutionScheduledEvent[int]) {
		now.Add(int64(interval - maxWait + 20*time.Millisecond)) // attempt 2 needs 80ms: within the max wait
	}).Build()
	ctx, cancel := context.WithCancel(context.Background())
	defer cancel()
	ex := failsafe.NewExecutor[int](rp, probe, rl).WithContext(ctx)
	ran := false
	ar := ex.GetAsync(func() (int, error) { ran = true; return 1, nil })
	select {
	case <-waiting:
	case <-time.After(5 * time.Second):
	}
	time.Sleep(time.Duration(2+r.IntN(10)) * time.Millisecond) // well inside the 80ms wait
	if source == "async" {
		ar.Cancel()
	} else {
		cancel()
	}
	_, err := ar.Get()
	rep.Eval()
	cs := map[string]any{"cancel": source}
	if ran || apps.Load() != 2 {
		rep.Count("limiter_wait_scenarios_disturbed", 1) // the 80ms wait ran out before the cancellation was delivered
		return
	}
	if exceededEvents.Load() != 1 || appsExceeded.Load() != 1 {
		rep.Violate(idx, "C16/rate-limit-exceeded-event-for-a-cancelled-wait", fmt.Sprintf("Retry(RateLimiter(fn)): attempt 1 was refused (wait beyond the max wait), attempt 2 was within the max wait and was cancelled (%s) while waiting for its permit: OnRateLimitExceeded fired %d times and %d of the 2 limiter applications returned ErrExceeded (want 1 and 1); call returned %v", source, exceededEvents.Load(), appsExceeded.Load(), err), cs)
		return
	}
	rep.Count("limiter_wait_cancelled_after_rejection", 1)
	rep.Distinct("rlcancel|" + source)
}
