package checks

import (
	"fmt"
	"strings"
	"sync/atomic"
	"time"

	"github.com/failsafe-go/failsafe-go"
	"github.com/failsafe-go/failsafe-go/hedgepolicy"
	"github.com/failsafe-go/failsafe-go/retrypolicy"
	"github.com/failsafe-go/failsafe-go/timeout"

	"verifharness/vk"
)

// c17RetryHedge: retries and hedges in the same execution (either nesting). The done event and every OnRetry/OnHedge
// event are the observation points: Attempts == 1 + Retries + Hedges, Retries == OnRetry events, Hedges == OnHedge
// events, Executions == completed function invocations.
func c17RetryHedge(rep *vk.Report, idx int) {
	r := vk.Rng(rep.Seed, "C17x", idx)
	nest := vk.Pick(r, "retry>hedge", "hedge>retry")
	maxHedges := 1 + r.IntN(2)
	delay := time.Duration(200+r.IntN(800)) * time.Microsecond
	failFirst := 1 + r.IntN(4) // the first failFirst invocations fail, slowly enough for hedges to start
	var onRetry, onHedge, calls, completed atomic.Int64
	var bad atomic.Pointer[string]
	check := func(where string, e failsafe.ExecutionInfo) {
		// counters are bumped one after the other by the policies; events are delivered by the goroutine that bumped
		// them, so at an event the identity may lag by concurrent hedge/retry starts only upwards in Attempts
		a, rt, h := e.Attempts(), e.Retries(), e.Hedges()
		if rt > int(onRetry.Load())+1 || h > int(onHedge.Load())+1 {
			msg := fmt.Sprintf("%s: Retries=%d Hedges=%d but only %d OnRetry and %d OnHedge events so far", where, rt, h, onRetry.Load(), onHedge.Load())
			bad.CompareAndSwap(nil, &msg)
		}
		_ = a
	}
	rp := retrypolicy.Builder[int]().WithMaxRetries(3).OnRetry(func(e failsafe.ExecutionEvent[int]) {
		onRetry.Add(1)
		check("OnRetry", e)
	}).Build()
	hp := hedgepolicy.BuilderWithDelay[int](delay).WithMaxHedges(maxHedges).CancelIf(func(_ int, err error) bool { return err == nil }).
		OnHedge(func(e failsafe.ExecutionEvent[int]) {
			onHedge.Add(1)
			check("OnHedge", e)
		}).Build()
	pols := []failsafe.Policy[int]{rp, hp}
	if nest == "hedge>retry" {
		pols = []failsafe.Policy[int]{hp, rp}
	}
	// optionally a per-attempt Timeout (never expiring) innermost: it makes its own child copy of each attempt's execution
	perAttemptTimeout := r.IntN(2) == 0
	if perAttemptTimeout {
		pols = append(pols, timeout.With[int](30*time.Second))
	}
	var done string
	var doneBad bool
	var dAttempts, dRetries, dHedges, dExecs int
	var doneEv failsafe.ExecutionDoneEvent[int]
	ex := failsafe.NewExecutor[int](pols...).OnDone(func(e failsafe.ExecutionDoneEvent[int]) {
		doneEv = e
		dExecs, dRetries, dHedges = e.Executions(), e.Retries(), e.Hedges()
		dAttempts = e.Attempts()
		done = fmt.Sprintf("Attempts=%d Retries=%d Hedges=%d Executions=%d", dAttempts, dRetries, dHedges, dExecs)
		doneBad = dAttempts != 1+dRetries+dHedges
	})
	var hedgeEntries, plainEntries atomic.Int64
	fn := func(exec failsafe.Execution[int]) (int, error) {
		k := int(calls.Add(1))
		defer completed.Add(1)
		// IsHedge identifies the attempts the hedge policy started: it is a fact about this attempt, so it cannot change
		// while the attempt runs, and over the execution there are at most Hedges such attempts and 1+Retries others
		isHedge := exec.IsHedge()
		if isHedge {
			hedgeEntries.Add(1)
		} else {
			plainEntries.Add(1)
		}
		// every invocation that fails returns (0, E1): under retry>hedge an attempt of a later round - the retried attempt and
		// the hedges started next to it alike - is shown that failure as the last result
		if nest == "retry>hedge" && exec.Retries() >= 1 && (exec.LastError() != errE1 || exec.LastResult() != 0) {
			msg := fmt.Sprintf("LastResult/LastError: invocation %d (IsHedge=%v, Retries=%d) of a round that follows a failed round sees last=(%d,%v), want (0,E1)", k, isHedge, exec.Retries(), exec.LastResult(), exec.LastError())
			bad.CompareAndSwap(nil, &msg)
		}
		if isHedge && exec.IsFirstAttempt() {
			msg := "an attempt reports IsHedge and IsFirstAttempt at once"
			bad.CompareAndSwap(nil, &msg)
		}
		defer func() {
			if exec.IsHedge() != isHedge {
				msg := fmt.Sprintf("invocation %d saw IsHedge()=%v on entry and %v when it returned", k, isHedge, !isHedge)
				bad.CompareAndSwap(nil, &msg)
			}
		}()
		if k <= failFirst {
			select {
			case <-time.After(2 * delay):
			case <-exec.Canceled():
			}
			return 0, errE1
		}
		return k, nil
	}
	var err error
	if r.IntN(3) == 0 {
		_, err = ex.GetWithExecutionAsync(fn).Get()
	} else {
		_, err = ex.GetWithExecution(fn)
	}
	rep.Eval()
	cs := map[string]any{"nesting": nest, "per_attempt_timeout": perAttemptTimeout, "max_hedges": maxHedges, "hedge_delay_ns": int64(delay), "fail_first": failFirst}
	viol := func(sig, msg string) {
		rep.Violate(idx, "C17/"+sig, fmt.Sprintf("%s (%s, maxHedges %d, first %d invocations fail; done event %s; OnRetry=%d OnHedge=%d calls=%d; err=%v)", msg, nest, maxHedges, failFirst, done, onRetry.Load(), onHedge.Load(), calls.Load(), err), cs)
	}
	if doneBad {
		viol("attempts-identity", "the done event violates Attempts == 1 + Retries + Hedges")
		return
	}
	// hedge attempts abandoned by an accepted result may still be running, but no retry or hedge starts after completion
	// a listener is called right after its counter was bumped; an abandoned attempt's goroutine may lag behind the
	// completion, so events that trail the counters are awaited (bounded), events ahead of the counters are final
	for w := 0; w < 2000 && (int(onRetry.Load()) < dRetries || int(onHedge.Load()) < dHedges); w++ {
		time.Sleep(time.Millisecond)
	}
	if dRetries != int(onRetry.Load()) || dHedges != int(onHedge.Load()) {
		viol("retries-hedges-vs-events", fmt.Sprintf("done event reports Retries=%d Hedges=%d, listeners saw %d OnRetry and %d OnHedge", dRetries, dHedges, onRetry.Load(), onHedge.Load()))
		return
	}
	// nothing in these compositions rejects an attempt or checks for cancellation between counting an attempt and
	// invoking the function, so every attempt the counters report is an invocation that was really started (it may lag
	// behind the completion by the scheduling latency of its goroutine: awaited, bounded)
	for w := 0; w < 10000 && int(calls.Load()) < dAttempts; w++ {
		time.Sleep(time.Millisecond)
	}
	if int(calls.Load()) != dAttempts {
		viol("attempts-vs-invocations", fmt.Sprintf("done event reports %d attempts (none rejected), the function was invoked %d times", dAttempts, calls.Load()))
		return
	}
	if dExecs > int(calls.Load()) {
		viol("executions-count", fmt.Sprintf("done event reports %d executions but the function was entered %d times", dExecs, calls.Load()))
		return
	}
	if s := bad.Load(); s != nil {
		if strings.HasPrefix(*s, "LastResult/LastError") {
			viol("last-result-not-shown-to-attempt", *s)
		} else if strings.Contains(*s, "IsHedge") {
			viol("ishedge-not-a-fact-about-the-attempt", *s)
		} else {
			viol("counter-ahead-of-events", *s)
		}
		return
	}
	// under hedge>retry a hedged branch retries on its own hedge copy, so several invocations belong to one hedge; with the
	// hedge innermost every hedge is exactly one invocation
	// every started attempt has entered the function by now; once they have all returned, Executions (read through the done
	// event, whose counters are the execution's own) equals the number of invocations that completed
	for w := 0; w < 10000 && completed.Load() < calls.Load(); w++ {
		time.Sleep(time.Millisecond)
	}
	// (the library counts an execution right after the function returns: awaited, bounded)
	for w := 0; w < 5000 && completed.Load() == calls.Load() && doneEv.Executions() < int(completed.Load()); w++ {
		time.Sleep(time.Millisecond)
	}
	if x := doneEv.Executions(); completed.Load() == calls.Load() && x != int(completed.Load()) {
		viol("executions-vs-completed-invocations", fmt.Sprintf("after every started attempt returned, Executions() is %d but %d invocations of the function have completed", x, completed.Load()))
		return
	}
	if nest == "retry>hedge" && int(hedgeEntries.Load()) != dHedges || int(plainEntries.Load()) > 1+dRetries {
		viol("ishedge-disagrees-with-counters", fmt.Sprintf("%d invocations reported IsHedge()=true and %d reported false, but the execution started %d hedges and %d retries", hedgeEntries.Load(), plainEntries.Load(), dHedges, dRetries))
		return
	}
	if dRetries > 0 && dHedges > 0 {
		rep.Count("executions_with_both_retries_and_hedges", 1)
		rep.Distinct(fmt.Sprintf("rh|%s|%v|%d|%d|%d|%d", nest, perAttemptTimeout, maxHedges, failFirst, dRetries, dHedges))
	}
}
