package checks

import (
	"bytes"
	"context"
	"crypto/sha256"
	"errors"
	"fmt"
	"io"
	"math/rand/v2"
	"net/http"
	"net/http/httptest"
	"os"
	"strconv"
	"strings"
	"sync"
	"sync/atomic"
	"testing/iotest"
	"time"

	"github.com/failsafe-go/failsafe-go"
	"github.com/failsafe-go/failsafe-go/circuitbreaker"
	"github.com/failsafe-go/failsafe-go/failsafehttp"
	"github.com/failsafe-go/failsafe-go/fallback"
	"github.com/failsafe-go/failsafe-go/hedgepolicy"
	"github.com/failsafe-go/failsafe-go/retrypolicy"
	"github.com/failsafe-go/failsafe-go/timeout"

	"verifharness/vk"
)

func init() { register("C18", checkC18) }

type srvStep struct {
	Status     int    `json:"status"`
	RetryAfter string `json:"retry_after,omitempty"`
	Mode       string `json:"mode,omitempty"` // "" | delayed | streamed | hijack
	Size       int    `json:"size,omitempty"`
}

type srvAttempt struct {
	method, uri, custom string
	bodyLen             int
	bodySum             [32]byte
	at                  time.Time
}

type srvCall struct {
	steps        []srvStep
	stallExpired atomic.Bool
	n            atomic.Int64
	mu           sync.Mutex
	attempts     []srvAttempt
}

type c18Server struct {
	srv   *httptest.Server
	calls sync.Map // id -> *srvCall
}

func newC18Server() *c18Server {
	s := &c18Server{}
	s.srv = httptest.NewServer(http.HandlerFunc(func(w http.ResponseWriter, r *http.Request) {
		id := r.Header.Get("X-Call")
		v, ok := s.calls.Load(id)
		if !ok {
			w.WriteHeader(599)
			return
		}
		c := v.(*srvCall)
		body, _ := io.ReadAll(r.Body)
		k := int(c.n.Add(1)) - 1
		c.mu.Lock()
		c.attempts = append(c.attempts, srvAttempt{r.Method, r.URL.RequestURI(), r.Header.Get("X-Custom"), len(body), sha256.Sum256(body), time.Now()})
		c.mu.Unlock()
		st := srvStep{Status: 200}
		if k < len(c.steps) {
			st = c.steps[k]
		} else if len(c.steps) > 0 {
			st = c.steps[len(c.steps)-1]
		}
		if st.Mode == "hijack" {
			if hj, ok := w.(http.Hijacker); ok {
				conn, _, _ := hj.Hijack()
				conn.Close()
				return
			}
		}
		if st.Mode == "delayed" {
			time.Sleep(15 * time.Millisecond)
		}
		if st.Mode == "stall" {
			// hold the headers back until the client has given up on this attempt (c18AttemptTimeouts): the attempt can then
			// only end in the client's own per-attempt limit, however slowly the client process is scheduled. Should the
			// client never give up, the scenario is marked and not judged.
			select {
			case <-time.After(20 * time.Second):
				c.stallExpired.Store(true)
			case <-r.Context().Done():
			}
		}
		if st.Mode == "nobody" {
			w.WriteHeader(st.Status) // a response without any body (http.NoBody on the client side)
			return
		}
		if st.RetryAfter != "" {
			w.Header().Set("Retry-After", st.RetryAfter)
		}
		payload := []byte(fmt.Sprintf("call=%s attempt=%d;", id, k))
		payload = append(payload, bytes.Repeat([]byte{'x'}, st.Size)...)
		w.Header().Set("Content-Length", strconv.Itoa(len(payload)))
		w.WriteHeader(st.Status)
		if st.Mode == "stallbody" {
			// headers and the first bytes arrive, then the body stalls for as long as the client keeps the connection
			w.Write(payload[:min(len(payload), 64)])
			if fl, ok := w.(http.Flusher); ok {
				fl.Flush()
			}
			select {
			case <-r.Context().Done():
			case <-time.After(12 * time.Second):
			}
			return
		}
		if st.Mode == "streamed" {
			fl, _ := w.(http.Flusher)
			for i := 0; i < len(payload); i += len(payload)/4 + 1 {
				e := min(i+len(payload)/4+1, len(payload))
				w.Write(payload[i:e])
				if fl != nil {
					fl.Flush()
				}
				time.Sleep(2 * time.Millisecond)
			}
			return
		}
		w.Write(payload)
	}))
	return s
}

type c18Case struct {
	Entry    string    `json:"entry"` // roundtripper | request
	Method   string    `json:"method"`
	BodyKind string    `json:"body_kind"`
	BodySize int       `json:"body_size"`
	ReqCtx   string    `json:"request_ctx"`  // background | todo | cancel | value | deadline
	ExecCtx  string    `json:"executor_ctx"` // none | cancel | value
	Stack    string    `json:"stack"`
	Steps    []srvStep `json:"server_script"`
	CancelAt string    `json:"cancel,omitempty"` // "" | mid-flight
}

type plainReader struct{ r io.Reader }

func (p plainReader) Read(b []byte) (int, error) { return p.r.Read(b) }

type c18CtxKey string

// ctxSpy is the instrumented inner RoundTripper.
type ctxSpy struct {
	next http.RoundTripper
	mu   sync.Mutex
	seen []c18CtxView
	ctxs []context.Context
}

type c18CtxView struct {
	reqValue, execValue any
	deadline            time.Time
	hasDeadline         bool
}

func (s *ctxSpy) RoundTrip(r *http.Request) (*http.Response, error) {
	ctx := r.Context()
	v := c18CtxView{reqValue: ctx.Value(c18CtxKey("req")), execValue: ctx.Value(c18CtxKey("exec"))}
	v.deadline, v.hasDeadline = ctx.Deadline()
	s.mu.Lock()
	s.seen = append(s.seen, v)
	s.ctxs = append(s.ctxs, ctx)
	s.mu.Unlock()
	return s.next.RoundTrip(r)
}

func genC18(r *rand.Rand) c18Case {
	cs := c18Case{Entry: vk.Pick(r, "roundtripper", "request"), Method: vk.Pick(r, "GET", "POST", "PUT"),
		BodyKind: vk.Pick(r, "nil", "nobody", "buffer", "bytesreader", "stringsreader", "file", "plain", "empty", "trickle", "trickle-len"),
		BodySize: vk.Pick(r, 0, 1, 4096, 1<<20), ReqCtx: vk.Pick(r, "background", "background", "todo", "cancel", "value", "deadline"),
		ExecCtx: vk.Pick(r, "none", "none", "cancel", "value", "deadline"), Stack: vk.Pick(r, "retry", "retry", "retry", "none", "timeout", "retry>timeout", "timeout>retry", "hedge", "retry>hedge", "breaker>retry", "fallback>retry", "retry>breaker", "retryb", "retryb", "timeout>retryb", "retryL", "retryP")}
	if cs.BodyKind == "nil" || cs.BodyKind == "nobody" || cs.BodyKind == "empty" {
		cs.BodySize = 0
	} else if cs.BodySize == 0 {
		cs.BodySize = 1
	}
	if cs.BodySize == 1<<20 && r.IntN(3) != 0 {
		cs.BodySize = 4096
	}
	n := 1 + r.IntN(4)
	for i := 0; i < n; i++ {
		st := srvStep{Status: vk.Pick(r, 200, 200, 404, 429, 500, 501, 502, 503, 503, 504, 400, 301+1000), Mode: vk.Pick(r, "", "", "", "delayed", "streamed", "hijack"), Size: vk.Pick(r, 0, 10, 5000)}
		if st.Status > 1000 {
			st.Status = 418
		}
		if (st.Status == 429 || st.Status == 503 || st.Status == 500) && r.IntN(3) == 0 {
			st.RetryAfter = vk.Pick(r, "0", "1", "1")
		}
		if st.Mode == "hijack" && i == n-1 {
			st.Mode = ""
		}
		cs.Steps = append(cs.Steps, st)
	}
	if r.IntN(10) == 0 {
		cs.CancelAt = "mid-flight"
		cs.ReqCtx = "cancel"
		cs.Steps = []srvStep{{Status: 200, Mode: "delayed"}}
	}
	return cs
}

func retryable(st srvStep) bool {
	return st.Mode == "hijack" || st.Status == 429 || (st.Status >= 500 && st.Status != 501)
}

var c18Ids atomic.Int64

func checkC18(rep *vk.Report) {
	rep.Rule = "HTTP: calls through failsafehttp.NewRoundTripper and NewRequest against a loopback server that records every attempt (method, URI, header, body length+SHA-256, arrival time) and follows a per-call script (statuses 200/400/404/418/429/500/501/502/503/504, Retry-After absent/0/1, delayed, streamed, hijack-and-close); body kinds nil/NoBody/*bytes.Buffer/*bytes.Reader/*strings.Reader/file/plain reader/one-byte-per-Read stream with and without a declared ContentLength/empty x sizes 1B-1MiB; request context background/TODO/cancellable/values/deadline x executor context none/cancellable/values/deadline; stacks of retry (failsafehttp.RetryPolicyBuilder), timeout, hedge, breaker, fallback. Oracles: every attempt identical to the original request; attempt count = documented retry rule; gap >= Retry-After seconds on 429/503; returned response is the last attempt's and its body reads to EOF; the context seen by an instrumented inner RoundTripper carries the request context's values and deadline and is done once the caller cancels. A firing hedge with a large body checks overlapping attempts. Attempts ending in net/http's own per-attempt limits (Transport.ResponseHeaderTimeout, Client.Timeout with NewRequest) while the server holds the headers back are retried like any other error (lower bound on the attempts the server sees). An attempt that yields a response together with an error is passed through as it is; one seekable body value sent twice arrives complete on every attempt of both sends. gRPC: client and server interceptors driven with fake invoker/handler for all 17 status codes: arguments, reply, error, options passed through unchanged, metadata/values/deadline visible, retries only for Unavailable/DeadlineExceeded/ResourceExhausted. Non-trivial: >=2 attempts, a non-background context, or a body; distinct by (entry, body kind, size class, contexts, stack, script statuses)."
	rep.Assumptions = []string{
		"A9: Retry-After is only required to be honoured on 429 and 503, integer seconds",
		"loopback networking works in the sandbox; TLS, x509 and redirect branches of the retry predicate are not driven",
	}
	srv := newC18Server()
	defer srv.srv.Close()
	n := scale(rep, 700, 60000)
	vk.Parallel(n, 16, func(idx int) {
		if rep.Skip(idx) {
			return
		}
		c18HTTP(rep, idx, srv)
	})
	nh := scale(rep, 24, 600)
	vk.Parallel(nh, 4, func(i int) {
		idx := n + i
		if rep.Skip(idx) {
			return
		}
		c18Hedged(rep, idx, srv)
	})
	vk.Parallel(scale(rep, 120, 4000), 16, func(i int) {
		idx := 5000000 + i
		if rep.Skip(idx) {
			return
		}
		c18AttemptTimeouts(rep, idx, srv)
	})
	vk.Parallel(scale(rep, 100, 4000), 8, func(i int) {
		if rep.Skip(5100000 + i) {
			return
		}
		c18ResponseWithError(rep, 5100000+i)
		c18SameBodyTwice(rep, 5200000+i, srv)
	})
	ng := scale(rep, 600, 40000)
	vk.Parallel(ng, 16, func(i int) {
		idx := n + nh + i
		if rep.Skip(idx) {
			return
		}
		c18GRPC(rep, idx)
	})
	rep.Require("http_calls_with_retries", 50)
	rep.Require("http_retry_after_gaps_checked", 5)
	rep.Require("http_contexts_checked_non_background", 50)
	rep.Require("grpc_calls", 100)
	rep.Require("http_attempt_timeouts_retried", 20)
}

func c18Body(kind string, size int, idx int) (io.Reader, []byte, func()) {
	data := bytes.Repeat([]byte{byte('a' + idx%26)}, size)
	if size > 8 {
		copy(data, []byte(fmt.Sprintf("%08d", idx%100000000)))
	}
	switch kind {
	case "nil":
		return nil, nil, func() {}
	case "nobody":
		return http.NoBody, nil, func() {}
	case "empty":
		return bytes.NewReader(nil), nil, func() {}
	case "buffer":
		return bytes.NewBuffer(append([]byte(nil), data...)), data, func() {}
	case "bytesreader":
		return bytes.NewReader(data), data, func() {}
	case "stringsreader":
		return strings.NewReader(string(data)), data, func() {}
	case "file":
		f, err := os.CreateTemp("", "c18body")
		if err != nil {
			return bytes.NewReader(data), data, func() {}
		}
		f.Write(data)
		f.Seek(0, 0)
		return f, data, func() { f.Close(); os.Remove(f.Name()) }
	}
	if kind == "trickle" || kind == "trickle-len" {
		// a stream that delivers its data a few bytes per Read, like a pipe or a network source ("trickle-len": the caller
		// also declares the length, see c18HTTP)
		return plainReader{iotest.OneByteReader(bytes.NewReader(data))}, data, func() {}
	}
	return plainReader{bytes.NewReader(data)}, data, func() {}
}

func c18Stack(stack string) []failsafe.Policy[*http.Response] {
	var pols []failsafe.Policy[*http.Response]
	for _, p := range strings.Split(stack, ">") {
		switch p {
		case "retry":
			pols = append(pols, failsafehttp.RetryPolicyBuilder().WithMaxRetries(2).Build())
		case "retryL": // the stock HTTP retry policy with the user's own listeners added
			pols = append(pols, failsafehttp.RetryPolicyBuilder().WithMaxRetries(2).
				OnRetry(func(failsafe.ExecutionEvent[*http.Response]) {}).OnRetryScheduled(func(failsafe.ExecutionScheduledEvent[*http.Response]) {}).
				OnFailure(func(failsafe.ExecutionEvent[*http.Response]) {}).Build())
		case "retryP": // a retry policy the user built from the plain builder with the same retry rule
			pols = append(pols, retrypolicy.Builder[*http.Response]().WithMaxRetries(2).
				HandleIf(func(r *http.Response, err error) bool {
					return err != nil || r != nil && (r.StatusCode == 429 || r.StatusCode >= 500 && r.StatusCode != 501)
				}).WithDelayFunc(failsafehttp.DelayFunc).Build())
		case "retryb": // with a backoff whose max delay is far below a Retry-After of 1s: the header still wins
			pols = append(pols, failsafehttp.RetryPolicyBuilder().WithMaxRetries(2).WithBackoff(2*time.Millisecond, 20*time.Millisecond).Build())
		case "timeout":
			pols = append(pols, timeout.With[*http.Response](20*time.Second))
		case "hedge":
			pols = append(pols, hedgepolicy.WithDelay[*http.Response](20*time.Second))
		case "hedge!": // a hedge that really fires
			pols = append(pols, hedgepolicy.BuilderWithDelay[*http.Response](4*time.Millisecond).WithMaxHedges(1).Build())
		case "hedgec": // fires, and accepts only answers below 500: when every attempt gets a 5xx the last one to finish is returned
			pols = append(pols, hedgepolicy.BuilderWithDelay[*http.Response](2*time.Millisecond).WithMaxHedges(2).
				CancelIf(func(r *http.Response, err error) bool { return r != nil && r.StatusCode < 500 }).Build())
		case "breaker":
			pols = append(pols, circuitbreaker.Builder[*http.Response]().WithFailureThreshold(1000).Build())
		case "fallback":
			pols = append(pols, fallback.BuilderWithError[*http.Response](errE3).HandleErrors(errE3).Build())
		}
	}
	return pols
}

func c18HTTP(rep *vk.Report, idx int, srv *c18Server) {
	r := vk.Rng(rep.Seed, "C18", idx)
	cs := genC18(r)
	id := fmt.Sprintf("c%d-%d", idx, c18Ids.Add(1))
	call := &srvCall{steps: cs.Steps}
	srv.calls.Store(id, call)
	defer srv.calls.Delete(id)
	body, data, cleanup := c18Body(cs.BodyKind, cs.BodySize, idx)
	defer cleanup()
	reqCtx := context.Background()
	cancelReq := func() {}
	var wantDeadline time.Time
	switch cs.ReqCtx {
	case "todo":
		reqCtx = context.TODO()
	case "cancel":
		var c context.CancelFunc
		reqCtx, c = context.WithCancel(reqCtx)
		cancelReq = c
	case "value":
		reqCtx = context.WithValue(reqCtx, c18CtxKey("req"), "req-value")
	case "deadline":
		var c context.CancelFunc
		reqCtx, c = context.WithTimeout(context.WithValue(reqCtx, c18CtxKey("req"), "req-value"), 30*time.Second)
		wantDeadline, _ = reqCtx.Deadline()
		defer c()
	}
	defer cancelReq()
	uri := srv.srv.URL + fmt.Sprintf("/p/%d?q=%d", idx, idx%7)
	req, err := http.NewRequestWithContext(reqCtx, cs.Method, uri, body)
	if err != nil {
		rep.Inconclusive("C18 could not build a request: " + err.Error())
		return
	}
	req.Header.Set("X-Call", id)
	req.Header.Set("X-Custom", "v-"+id)
	if cs.BodyKind == "trickle-len" {
		req.ContentLength = int64(len(data))
	}
	ex := failsafe.NewExecutor[*http.Response](c18Stack(cs.Stack)...)
	switch cs.ExecCtx {
	case "cancel":
		ectx, c := context.WithCancel(context.Background())
		defer c()
		ex = ex.WithContext(ectx)
	case "value":
		ex = ex.WithContext(context.WithValue(context.Background(), c18CtxKey("exec"), "exec-value"))
	case "deadline": // the executor's context has a (far) deadline, the request's may have none: the request's values must survive
		ectx, c := context.WithTimeout(context.Background(), 60*time.Second)
		defer c()
		ex = ex.WithContext(ectx)
	}
	tr := &http.Transport{}
	defer tr.CloseIdleConnections()
	spy := &ctxSpy{next: tr}
	if cs.CancelAt == "mid-flight" {
		time.AfterFunc(3*time.Millisecond, cancelReq)
	}
	var resp *http.Response
	if cs.Entry == "roundtripper" {
		client := &http.Client{Transport: failsafehttp.NewRoundTripperWithExecutor(spy, ex)}
		resp, err = client.Do(req)
	} else {
		resp, err = failsafehttp.NewRequestWithExecutor(req, &http.Client{Transport: spy}, ex).Do()
	}
	rep.Eval()
	viol := func(sig, msg string) {
		rep.Violate(idx, "C18/"+sig, msg+fmt.Sprintf(" (case %+v; err=%v)", cs, err), cs)
	}
	call.mu.Lock()
	atts := append([]srvAttempt(nil), call.attempts...)
	call.mu.Unlock()
	if cs.CancelAt == "mid-flight" {
		// the attempt's context must be done once the caller's context is
		spy.mu.Lock()
		ctxs := append([]context.Context(nil), spy.ctxs...)
		spy.mu.Unlock()
		for _, c := range ctxs {
			select {
			case <-c.Done():
			case <-time.After(5 * time.Second):
				viol("attempt-context-not-done-after-caller-cancel", "the caller's context was cancelled but the context the attempt ran under is not done 5s later")
				return
			}
		}
		if resp != nil {
			resp.Body.Close()
		}
		rep.Count("http_mid_flight_cancellations", 1)
		rep.Distinct(fmt.Sprintf("cancel|%s|%s|%s", cs.Entry, cs.ExecCtx, cs.Stack))
		return
	}
	// expected number of attempts
	hasRetry := strings.Contains(cs.Stack, "retry")
	want := 1
	if hasRetry {
		want = 0
		for k := 0; k < 3; k++ {
			st := cs.Steps[min(k, len(cs.Steps)-1)]
			want++
			if !retryable(st) {
				break
			}
		}
	}
	if len(atts) != want {
		sts := []int{}
		for _, s := range cs.Steps {
			sts = append(sts, s.Status)
		}
		viol("attempt-count", fmt.Sprintf("server saw %d attempts, the documented retry rule gives %d for script %v", len(atts), want, sts))
		return
	}
	sum := sha256.Sum256(data)
	for k, a := range atts {
		if a.method != cs.Method || a.uri != fmt.Sprintf("/p/%d?q=%d", idx, idx%7) || a.custom != "v-"+id {
			viol("attempt-request-line-or-header-differs", fmt.Sprintf("attempt %d arrived as %s %s X-Custom=%q", k, a.method, a.uri, a.custom))
			return
		}
		if a.bodyLen != len(data) || a.bodySum != sum {
			viol("attempt-body-differs", fmt.Sprintf("attempt %d arrived with a %d-byte body (hash match=%v), original %d bytes", k, a.bodyLen, a.bodySum == sum, len(data)))
			return
		}
		if k > 0 {
			prev := cs.Steps[min(k-1, len(cs.Steps)-1)]
			if (prev.Status == 429 || prev.Status == 503) && prev.RetryAfter != "" && prev.Mode != "hijack" {
				secs, _ := strconv.Atoi(prev.RetryAfter)
				rep.Count("http_retry_after_gaps_checked", 1)
				if gap := a.at.Sub(atts[k-1].at); gap < time.Duration(secs)*time.Second {
					viol("retry-after-not-honoured", fmt.Sprintf("attempt %d arrived %v after attempt %d which answered %d with Retry-After: %s", k, gap, k-1, prev.Status, prev.RetryAfter))
					return
				}
			}
		}
	}
	last := cs.Steps[min(len(atts)-1, len(cs.Steps)-1)]
	if last.Mode == "hijack" {
		if err == nil {
			viol("error-not-returned", "the last attempt's connection was closed by the server but no error was returned")
		}
	} else {
		if hasRetry && len(atts) == 3 && retryable(last) {
			// retries exhausted: the retry policy's documented result is ExceededError carrying the last response
			var xe retrypolicy.ExceededError
			if !errors.As(err, &xe) {
				viol("exhausted-retries-result", "three retryable answers: expected retrypolicy.ExceededError carrying the last response")
				return
			}
			lr, _ := xe.LastResult.(*http.Response)
			if lr == nil {
				viol("exhausted-retries-result", "ExceededError does not carry the last response")
				return
			}
			resp, err = lr, nil
			rep.Count("http_calls_with_exhausted_retries", 1)
		}
		if err != nil || resp == nil {
			viol("response-not-returned", fmt.Sprintf("the last attempt answered %d but the call returned an error", last.Status))
			return
		}
		b, rerr := io.ReadAll(resp.Body)
		resp.Body.Close()
		wantPrefix := fmt.Sprintf("call=%s attempt=%d;", id, len(atts)-1)
		if rerr != nil {
			sig := "response-body-unreadable"
			if cs.ReqCtx != "background" && (cs.ExecCtx != "none" || strings.Contains(cs.Stack, "timeout") || strings.Contains(cs.Stack, "hedge")) {
				sig = "response-body-unreadable-when-both-contexts-are-set"
			}
			viol(sig, fmt.Sprintf("reading the returned body failed after %d of %d bytes: %v", len(b), len(wantPrefix)+last.Size, rerr))
			return
		}
		if resp.StatusCode != last.Status || !strings.HasPrefix(string(b), wantPrefix) || len(b) != len(wantPrefix)+last.Size {
			viol("response-is-not-the-last-attempts", fmt.Sprintf("returned status %d body %q... (%d bytes), last attempt sent %d %q + %d bytes", resp.StatusCode, string(b[:min(len(b), 40)]), len(b), last.Status, wantPrefix, last.Size))
			return
		}
	}
	// context fidelity as seen by the inner RoundTripper
	spy.mu.Lock()
	views := append([]c18CtxView(nil), spy.seen...)
	spy.mu.Unlock()
	for k, v := range views {
		if (cs.ReqCtx == "value" || cs.ReqCtx == "deadline") && v.reqValue != "req-value" {
			sig := "request-context-value-lost"
			if cs.ExecCtx != "none" || strings.Contains(cs.Stack, "timeout") || strings.Contains(cs.Stack, "hedge") {
				sig = "request-context-value-lost-when-both-contexts-are-set"
			}
			viol(sig, fmt.Sprintf("attempt %d ran under a context without the request context's value", k))
			return
		}
		if cs.ReqCtx == "deadline" && (!v.hasDeadline || v.deadline.After(wantDeadline)) {
			sig := "request-context-deadline-lost"
			if cs.ExecCtx != "none" || strings.Contains(cs.Stack, "timeout") || strings.Contains(cs.Stack, "hedge") {
				sig = "request-context-deadline-lost-when-both-contexts-are-set"
			}
			viol(sig, fmt.Sprintf("attempt %d ran under a context without (or with a later) deadline than the request context's", k))
			return
		}
	}
	if cs.ReqCtx != "background" || cs.ExecCtx != "none" {
		rep.Count("http_contexts_checked_non_background", 1)
	}
	if len(atts) >= 2 {
		rep.Count("http_calls_with_retries", 1)
	}
	if len(atts) >= 2 || cs.ReqCtx != "background" || len(data) > 0 {
		sts := ""
		for _, s := range cs.Steps[:min(len(atts), len(cs.Steps))] {
			sts += fmt.Sprintf("%d%s,", s.Status, s.Mode)
		}
		rep.Distinct(fmt.Sprintf("%s|%s|%d|%s|%s|%s|%s", cs.Entry, cs.BodyKind, cs.BodySize, cs.ReqCtx, cs.ExecCtx, cs.Stack, sts))
		if rep.WantSample() && len(atts) >= 2 {
			rep.Sample(map[string]any{"case": cs, "attempts_seen_by_server": len(atts)})
		}
	}
}

// c18Hedged: a firing hedge with a large body: both overlapping attempts must carry the complete original body.
func c18Hedged(rep *vk.Report, idx int, srv *c18Server) {
	r := vk.Rng(rep.Seed, "C18h", idx)
	kind := vk.Pick(r, "plain", "buffer", "stringsreader", "bytesreader")
	size := vk.Pick(r, 64<<10, 1<<20, 4<<20)
	id := fmt.Sprintf("h%d-%d", idx, c18Ids.Add(1))
	call := &srvCall{steps: []srvStep{{Status: 200, Mode: "delayed"}, {Status: 200}}}
	srv.calls.Store(id, call)
	defer srv.calls.Delete(id)
	body, data, cleanup := c18Body(kind, size, idx)
	defer cleanup()
	req, _ := http.NewRequest("POST", srv.srv.URL+"/hedged", body)
	req.Header.Set("X-Call", id)
	tr := &http.Transport{}
	defer tr.CloseIdleConnections()
	hp := hedgepolicy.BuilderWithDelay[*http.Response](time.Duration(1+r.IntN(4)) * time.Millisecond).Build()
	var resp *http.Response
	var err error
	if r.IntN(2) == 0 {
		resp, err = (&http.Client{Transport: failsafehttp.NewRoundTripper(tr, hp)}).Do(req)
	} else {
		resp, err = failsafehttp.NewRequest(req, &http.Client{Transport: tr}, hp).Do()
	}
	rep.Eval()
	if resp != nil {
		io.Copy(io.Discard, resp.Body)
		resp.Body.Close()
	}
	time.Sleep(30 * time.Millisecond) // let the losing attempt reach the server or be abandoned
	call.mu.Lock()
	atts := append([]srvAttempt(nil), call.attempts...)
	call.mu.Unlock()
	sum := sha256.Sum256(data)
	rep.Count("hedged_calls", 1)
	if len(atts) >= 2 {
		rep.Count("hedged_calls_with_overlapping_attempts", 1)
	}
	if err != nil && !errors.Is(err, context.Canceled) {
		rep.Violate(idx, "C18/hedged-call-failed", fmt.Sprintf("hedged POST with a %d-byte %s body failed: %v", size, kind, err), map[string]any{"kind": kind, "size": size})
		return
	}
	for k, a := range atts {
		// an abandoned (cancelled) attempt may arrive truncated; a complete-length body must be the original
		if a.bodyLen == len(data) && a.bodySum != sum {
			rep.Violate(idx, "C18/attempt-body-differs", fmt.Sprintf("hedged attempt %d carried %d bytes that differ from the original %s body", k, a.bodyLen, kind), map[string]any{"kind": kind, "size": size})
			return
		}
	}
	rep.Distinct(fmt.Sprintf("hedged|%s|%d|%d", kind, size, len(atts)))
}

// ---- gRPC interceptors driven directly with fake invoker / handler ----
