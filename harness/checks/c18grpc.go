package checks

import (
	"context"
	"fmt"
	"strings"
	"time"

	"google.golang.org/grpc"
	"google.golang.org/grpc/codes"
	"google.golang.org/grpc/metadata"
	"google.golang.org/grpc/status"
	"google.golang.org/grpc/tap"

	"github.com/failsafe-go/failsafe-go"
	"github.com/failsafe-go/failsafe-go/circuitbreaker"
	"github.com/failsafe-go/failsafe-go/failsafegrpc"
	"github.com/failsafe-go/failsafe-go/hedgepolicy"
	"github.com/failsafe-go/failsafe-go/timeout"

	"verifharness/vk"
)

type grpcReq struct{ ID int }
type grpcReply struct{ ID int }

type c18gCase struct {
	Side   string   `json:"side"` // client | server | tap
	Codes  []uint32 `json:"codes"`
	Stack  string   `json:"stack"`
	Ctx    string   `json:"ctx"` // background | metadata | value+deadline | cancel
	UseExe string   `json:"executor_ctx"`
	// Wrapped: the invoker/handler returns the status error annotated by another layer (fmt.Errorf("...: %w", statusErr)),
	// as an inner interceptor or a wrapping handler does; status.FromError still finds the code
	Wrapped bool `json:"wrapped_status,omitempty"`
}

func grpcStack(stack string) []failsafe.Policy[*grpcReply] {
	var pols []failsafe.Policy[*grpcReply]
	for _, p := range strings.Split(stack, ">") {
		switch p {
		case "retry":
			pols = append(pols, failsafegrpc.RetryPolicyBuilder[*grpcReply]().WithMaxRetries(2).Build())
		case "timeout":
			pols = append(pols, timeout.With[*grpcReply](20*time.Second))
		case "hedge":
			pols = append(pols, hedgepolicy.WithDelay[*grpcReply](20*time.Second))
		case "breaker":
			pols = append(pols, circuitbreaker.Builder[*grpcReply]().WithFailureThreshold(1000).Build())
		}
	}
	return pols
}

func c18GRPC(rep *vk.Report, idx int) {
	r := vk.Rng(rep.Seed, "C18g", idx)
	cs := c18gCase{Side: vk.Pick(r, "client", "client", "server", "tap"), Stack: vk.Pick(r, "retry", "retry", "retry>timeout", "timeout>retry", "retry>hedge", "breaker>retry", "none"),
		Ctx: vk.Pick(r, "background", "metadata", "metadata", "value+deadline", "cancel"), UseExe: vk.Pick(r, "none", "none", "value")}
	n := 1 + r.IntN(4)
	for i := 0; i < n; i++ {
		cs.Codes = append(cs.Codes, uint32(r.IntN(17)))
	}
	cs.Wrapped = r.IntN(4) == 0
	if idx%17 < 17 && r.IntN(3) == 0 {
		cs.Codes[0] = uint32(idx % 17) // every code is exercised as a first answer
	}
	ctx := context.Background()
	var wantDeadline time.Time
	md := metadata.Pairs("k", fmt.Sprintf("v%d", idx))
	switch cs.Ctx {
	case "metadata":
		if cs.Side == "client" {
			ctx = metadata.NewOutgoingContext(ctx, md)
		} else {
			ctx = metadata.NewIncomingContext(ctx, md)
		}
	case "value+deadline":
		var c context.CancelFunc
		ctx, c = context.WithTimeout(context.WithValue(ctx, c18CtxKey("req"), "req-value"), 30*time.Second)
		defer c()
		wantDeadline, _ = ctx.Deadline()
	case "cancel":
		var c context.CancelFunc
		ctx, c = context.WithCancel(ctx)
		defer c()
	}
	ex := failsafe.NewExecutor[*grpcReply](grpcStack(cs.Stack)...)
	if cs.UseExe == "value" {
		ex = ex.WithContext(context.WithValue(context.Background(), c18CtxKey("exec"), "exec-value"))
	}
	rep.Eval()
	rep.Count("grpc_calls", 1)
	both := cs.Ctx != "background" && (cs.UseExe != "none" || strings.Contains(cs.Stack, "timeout") || strings.Contains(cs.Stack, "hedge"))
	viol := func(sig, msg string) {
		if both && (strings.Contains(sig, "metadata") || strings.Contains(sig, "value") || strings.Contains(sig, "deadline")) {
			sig += "-when-both-contexts-are-set"
		}
		rep.Violate(idx, "C18/grpc-"+sig, msg+fmt.Sprintf(" (case %+v)", cs), cs)
	}
	checkCtx := func(c context.Context, k int) bool {
		switch cs.Ctx {
		case "metadata":
			var got metadata.MD
			var ok bool
			if cs.Side == "client" {
				got, ok = metadata.FromOutgoingContext(c)
			} else {
				got, ok = metadata.FromIncomingContext(c)
			}
			if !ok || len(got.Get("k")) != 1 || got.Get("k")[0] != md.Get("k")[0] {
				viol("metadata-lost", fmt.Sprintf("call %d ran under a context without the caller's metadata", k))
				return false
			}
		case "value+deadline":
			if c.Value(c18CtxKey("req")) != "req-value" {
				viol("context-value-lost", fmt.Sprintf("call %d ran under a context without the caller's value", k))
				return false
			}
			if d, ok := c.Deadline(); !ok || d.After(wantDeadline) {
				viol("context-deadline-lost", fmt.Sprintf("call %d ran under a context without the caller's deadline", k))
				return false
			}
		}
		return true
	}
	codeErr := func(k int) error {
		c := codes.Code(cs.Codes[min(k, len(cs.Codes)-1)])
		if c == codes.OK {
			return nil
		}
		if cs.Wrapped {
			return fmt.Errorf("annotated by an inner layer: %w", status.Error(c, fmt.Sprintf("scripted %d", k)))
		}
		return status.Error(c, fmt.Sprintf("scripted %d", k))
	}
	isRetryable := func(c codes.Code) bool {
		return c == codes.Unavailable || c == codes.DeadlineExceeded || c == codes.ResourceExhausted
	}
	want := 1
	if strings.Contains(cs.Stack, "retry") {
		want = 0
		for k := 0; k < 3; k++ {
			want++
			if !isRetryable(codes.Code(cs.Codes[min(k, len(cs.Codes)-1)])) {
				break
			}
		}
	}
	req, reply := &grpcReq{idx}, &grpcReply{}
	calls := 0
	var lastErr error
	ok := true
	switch cs.Side {
	case "client":
		opts := []grpc.CallOption{grpc.WaitForReady(true), grpc.MaxCallRecvMsgSize(1234)}
		var cc *grpc.ClientConn
		invoker := func(c context.Context, method string, rq, rp any, conn *grpc.ClientConn, o ...grpc.CallOption) error {
			k := calls
			calls++
			if method != "/svc/M" || rq != any(req) || rp != any(reply) || conn != cc || len(o) != len(opts) {
				viol("arguments-changed", fmt.Sprintf("invoker call %d got method=%q req-same=%v reply-same=%v opts=%d", k, method, rq == any(req), rp == any(reply), len(o)))
				ok = false
			}
			if ok {
				ok = checkCtx(c, k)
			}
			reply.ID = 100 + k
			lastErr = codeErr(k)
			return lastErr
		}
		err := failsafegrpc.NewUnaryClientInterceptorWithExecutor[*grpcReply](ex)(ctx, "/svc/M", req, reply, cc, invoker, opts...)
		if !ok {
			return
		}
		if calls != want {
			viol("attempt-count", fmt.Sprintf("invoker called %d times for codes %v, documented retry rule gives %d", calls, cs.Codes, want))
			return
		}
		if err != lastErr && !(err != nil && lastErr != nil && strings.Contains(err.Error(), "retries exceeded") && status.Code(lastErr) == status.Code(unwrapAll(err))) {
			viol("error-changed", fmt.Sprintf("interceptor returned %v, last invoker error %v", err, lastErr))
			return
		}
		if reply.ID != 100+calls-1 {
			viol("reply-changed", "the reply object does not carry what the last invoker call wrote")
			return
		}
	case "server":
		info := &grpc.UnaryServerInfo{FullMethod: "/svc/M"}
		handler := func(c context.Context, rq any) (any, error) {
			k := calls
			calls++
			if rq != any(req) {
				viol("arguments-changed", "handler received a different request object")
				ok = false
			}
			if ok {
				ok = checkCtx(c, k)
			}
			lastErr = codeErr(k)
			return &grpcReply{200 + k}, lastErr
		}
		resp, err := failsafegrpc.NewUnaryServerInterceptorWithExecutor[*grpcReply](ex)(ctx, req, info, handler)
		if !ok {
			return
		}
		if calls != want {
			viol("attempt-count", fmt.Sprintf("handler called %d times for codes %v, documented retry rule gives %d", calls, cs.Codes, want))
			return
		}
		if rp, _ := resp.(*grpcReply); lastErr == nil && (rp == nil || rp.ID != 200+calls-1) {
			viol("reply-changed", fmt.Sprintf("interceptor returned %v, handler's last reply had ID %d", resp, 200+calls-1))
			return
		}
		if err != lastErr && !(err != nil && lastErr != nil && strings.Contains(err.Error(), "retries exceeded")) {
			viol("error-changed", fmt.Sprintf("interceptor returned %v, last handler error %v", err, lastErr))
			return
		}
	default:
		c2, err := failsafegrpc.NewServerInHandleWithExecutor[*grpcReply](ex)(ctx, &tap.Info{FullMethodName: "/svc/M"})
		if err != nil || c2 != ctx {
			viol("tap-handle", fmt.Sprintf("ServerInHandle returned err=%v same-context=%v", err, c2 == ctx))
			return
		}
	}
	rep.Distinct(fmt.Sprintf("grpc|%s|%s|%s|%s|%v", cs.Side, cs.Stack, cs.Ctx, cs.UseExe, cs.Codes))
}

func unwrapAll(err error) error {
	for {
		u, ok := err.(interface{ Unwrap() error })
		if !ok {
			return err
		}
		n := u.Unwrap()
		if n == nil {
			return err
		}
		err = n
	}
}
