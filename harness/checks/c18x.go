package checks

import (
	"crypto/sha256"
	"errors"
	"fmt"
	"io"
	"net/http"
	"sync/atomic"
	"time"

	"github.com/failsafe-go/failsafe-go"
	"github.com/failsafe-go/failsafe-go/failsafehttp"

	"verifharness/vk"
)

// c18AttemptTimeouts: attempts that fail with net/http's own per-attempt timeouts (Transport.ResponseHeaderTimeout, or
// http.Client.Timeout when the caller's client runs once per attempt through failsafehttp.NewRequest). Neither is the
// caller's context being cancelled or expiring, so they are ordinary retryable errors of the documented retry rule. The
// server holds the headers of scripted attempts back until the client has given up on the attempt, so such an attempt can
// only end in the client's limit. A loaded machine can add spurious timeouts on the other attempts (more attempts),
// never remove one, so the oracle is a lower bound on the attempts handed to net/http (counted at the inner
// RoundTripper: a spurious timeout during connection set-up keeps an attempt from ever reaching the server).
func c18AttemptTimeouts(rep *vk.Report, idx int, srv *c18Server) {
	r := vk.Rng(rep.Seed, "C18t", idx)
	scripts := [][]srvStep{
		{{Status: 200, Mode: "stall"}, {Status: 200}},
		{{Status: 200, Mode: "stall"}, {Status: 200, Mode: "stall"}, {Status: 200}},
		{{Status: 503}, {Status: 200, Mode: "stall"}, {Status: 200}},
		{{Status: 200, Mode: "stall"}, {Status: 404}},
		{{Status: 200, Mode: "stall"}, {Status: 502}, {Status: 200}},
	}
	steps := scripts[r.IntN(len(scripts))]
	limit := vk.Pick(r, "transport-header-timeout", "transport-header-timeout", "client-timeout")
	entry := vk.Pick(r, "roundtripper", "request")
	if limit == "client-timeout" {
		entry = "request" // only there does the client (and its Timeout) run once per attempt
	}
	id := fmt.Sprintf("t%d-%d", idx, c18Ids.Add(1))
	call := &srvCall{steps: steps}
	srv.calls.Store(id, call)
	defer srv.calls.Delete(id)
	req, err := http.NewRequest("GET", srv.srv.URL+fmt.Sprintf("/t/%d", idx), nil)
	if err != nil {
		rep.Inconclusive("C18 could not build a request: " + err.Error())
		return
	}
	req.Header.Set("X-Call", id)
	tr := &http.Transport{}
	defer tr.CloseIdleConnections()
	// attempts are counted where the adapter hands them to net/http: an attempt that runs into its limit before it even
	// reaches the server (connection set-up on a loaded machine) is an attempt all the same
	var clientAttempts atomic.Int64
	counted := rtFunc(func(r *http.Request) (*http.Response, error) { clientAttempts.Add(1); return tr.RoundTrip(r) })
	client := &http.Client{Transport: counted}
	if limit == "client-timeout" {
		client.Timeout = 60 * time.Millisecond
	} else {
		tr.ResponseHeaderTimeout = 40 * time.Millisecond
	}
	ex := failsafe.NewExecutor[*http.Response](failsafehttp.RetryPolicyBuilder().Build())
	var resp *http.Response
	if entry == "roundtripper" {
		resp, err = (&http.Client{Transport: failsafehttp.NewRoundTripperWithExecutor(counted, ex)}).Do(req)
	} else {
		resp, err = failsafehttp.NewRequestWithExecutor(req, client, ex).Do()
	}
	status := 0
	if resp != nil {
		status = resp.StatusCode
		io.Copy(io.Discard, resp.Body)
		resp.Body.Close()
	}
	rep.Eval()
	seen := int(clientAttempts.Load())
	want := 0
	for k := 0; k < 3; k++ {
		st := steps[min(k, len(steps)-1)]
		want++
		if st.Mode != "stall" && !retryable(st) {
			break
		}
	}
	cs := map[string]any{"limit": limit, "entry": entry, "server_script": steps}
	if call.stallExpired.Load() {
		rep.Count("http_attempt_timeout_calls_not_judged", 1)
		return
	}
	if seen < want {
		rep.Violate(idx, "C18/attempt-timeout-not-retried", fmt.Sprintf("%s, %s: the server held back the headers of scripted attempts (script %+v) so they ended in net/http's per-attempt timeout, a retryable error; the documented retry rule gives %d attempts, %d were made (returned status %d, err %v)", entry, limit, steps, want, seen, status, err), cs)
		return
	}
	if seen > want {
		rep.Count("http_attempt_timeout_calls_with_spurious_timeouts", 1)
		return
	}
	call.mu.Lock()
	serverSeen := len(call.attempts)
	call.mu.Unlock()
	if last := steps[min(seen-1, len(steps)-1)]; serverSeen == seen && err == nil && status != last.Status {
		rep.Violate(idx, "C18/response-is-not-the-last-attempts", fmt.Sprintf("%s, %s: %d attempts, the last one answered %d, the call returned status %d", entry, limit, seen, last.Status, status), cs)
		return
	}
	rep.Count("http_attempt_timeouts_retried", 1)
	rep.Distinct(fmt.Sprintf("attempt-timeout|%s|%s|%d", entry, limit, len(steps)*10+want))
}

type rtFunc func(*http.Request) (*http.Response, error)

func (f rtFunc) RoundTrip(r *http.Request) (*http.Response, error) { return f(r) }

type bothRT struct{ calls *int }

var errBothRT = errors.New("inner transport: partial failure")

// RoundTrip returns a response together with an error, as an inner transport or an http.Client refusing a redirect does.
func (b bothRT) RoundTrip(r *http.Request) (*http.Response, error) {
	*b.calls++
	return &http.Response{StatusCode: 302, Status: "302 Found", Header: http.Header{"Location": {"/elsewhere"}, "X-Seen": {"yes"}}, Body: http.NoBody, Request: r}, errBothRT
}

// c18ResponseWithError: the adapter is transparent for an attempt that yields a response AND an error: with no policy
// that retries or replaces it, the caller of the failsafe RoundTripper gets both, as from the inner RoundTripper itself.
func c18ResponseWithError(rep *vk.Report, idx int) {
	r := vk.Rng(rep.Seed, "C18b", idx)
	stack := vk.Pick(r, "none", "timeout", "breaker", "hedge")
	calls := 0
	rt := failsafehttp.NewRoundTripperWithExecutor(bothRT{&calls}, failsafe.NewExecutor[*http.Response](c18Stack(stack)...))
	req, _ := http.NewRequest("GET", "http://example.invalid/x", nil)
	resp, err := rt.RoundTrip(req)
	rep.Eval()
	if calls != 1 || !errors.Is(err, errBothRT) || resp == nil || resp.StatusCode != 302 || resp.Header.Get("X-Seen") != "yes" {
		st := 0
		if resp != nil {
			st = resp.StatusCode
		}
		rep.Violate(idx, "C18/response-with-error-not-passed-through", fmt.Sprintf("stack %s: the inner RoundTripper returned a 302 response together with an error (called %d times); the failsafe RoundTripper returned response=%v (status %d), err=%v", stack, calls, resp != nil, st, err), map[string]any{"stack": stack})
		return
	}
	rep.Count("response_with_error_passed_through", 1)
	rep.Distinct("both|" + stack)
}

// c18SameBodyTwice: one seekable body value is sent twice (two executions, each with a retried attempt): every attempt of
// both sends reaches the server with the complete body.
func c18SameBodyTwice(rep *vk.Report, idx int, srv *c18Server) {
	r := vk.Rng(rep.Seed, "C18s", idx)
	kind := vk.Pick(r, "file", "bytesreader", "stringsreader")
	size := vk.Pick(r, 1, 33, 4096)
	body, data, cleanup := c18Body(kind, size, idx)
	defer cleanup()
	sum := sha256.Sum256(data)
	tr := &http.Transport{}
	defer tr.CloseIdleConnections()
	for send := 0; send < 2; send++ {
		id := fmt.Sprintf("s%d-%d-%d", idx, send, c18Ids.Add(1))
		call := &srvCall{steps: []srvStep{{Status: 503}, {Status: 200}}}
		srv.calls.Store(id, call)
		// the caller owns the body and hands the SAME value over again; NopCloser keeps the client from closing a file
		req, err := http.NewRequest("POST", srv.srv.URL+fmt.Sprintf("/twice/%d", idx), io.NopCloser(body))
		if err != nil {
			srv.calls.Delete(id)
			return
		}
		req.Body = struct {
			io.Reader
			io.Seeker
			io.Closer
		}{body, body.(io.Seeker), io.NopCloser(nil)}
		req.ContentLength = int64(len(data))
		req.Header.Set("X-Call", id)
		ex := failsafe.NewExecutor[*http.Response](failsafehttp.RetryPolicyBuilder().WithMaxRetries(2).Build())
		var resp *http.Response
		if r.IntN(2) == 0 {
			resp, err = (&http.Client{Transport: failsafehttp.NewRoundTripperWithExecutor(tr, ex)}).Do(req)
		} else {
			resp, err = failsafehttp.NewRequestWithExecutor(req, &http.Client{Transport: tr}, ex).Do()
		}
		if resp != nil {
			io.Copy(io.Discard, resp.Body)
			resp.Body.Close()
		}
		call.mu.Lock()
		atts := append([]srvAttempt(nil), call.attempts...)
		call.mu.Unlock()
		srv.calls.Delete(id)
		rep.Eval()
		if err != nil || len(atts) != 2 {
			rep.Violate(idx, "C18/attempt-count", fmt.Sprintf("send #%d of one %s body (%d bytes), script 503 then 200: server saw %d attempts, err=%v", send+1, kind, size, len(atts), err), map[string]any{"body_kind": kind, "size": size, "send": send + 1})
			return
		}
		for k, a := range atts {
			if a.bodyLen != len(data) || a.bodySum != sum {
				rep.Violate(idx, "C18/attempt-body-differs", fmt.Sprintf("send #%d of one %s body: attempt %d arrived with a %d-byte body (hash match=%v), original %d bytes", send+1, kind, k, a.bodyLen, a.bodySum == sum, len(data)), map[string]any{"body_kind": kind, "size": size, "send": send + 1})
				return
			}
		}
	}
	rep.Count("same_body_sent_twice", 1)
	rep.Distinct(fmt.Sprintf("twice|%s|%d", kind, size))
}
