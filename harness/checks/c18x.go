package checks

import (
	"fmt"
	"io"
	"net/http"
	"time"

	"github.com/failsafe-go/failsafe-go"
	"github.com/failsafe-go/failsafe-go/failsafehttp"

	"verifharness/vk"
)

// c18AttemptTimeouts: attempts that fail with net/http's own per-attempt timeouts (Transport.ResponseHeaderTimeout, or
// http.Client.Timeout when the caller's client runs once per attempt through failsafehttp.NewRequest). Neither is the
// caller's context being cancelled or expiring, so they are ordinary retryable errors of the documented retry rule. The
// server holds the headers of scripted attempts back for far longer than the limit. A loaded machine can add spurious
// timeouts (more attempts), never remove one, so the oracle is a lower bound on the attempts the server sees.
func c18AttemptTimeouts(rep *vk.Report, idx int, srv *c18Server) {
	r := vk.Rng(rep.Seed, "C18t", idx)
	scripts := [][]srvStep{
		{{Status: 200, Mode: "stall"}, {Status: 200}},
		{{Status: 200, Mode: "stall"}, {Status: 200, Mode: "stall"}, {Status: 200}},
		{{Status: 503}, {Status: 200, Mode: "stall"}, {Status: 200}},
		{{Status: 200, Mode: "stall"}, {Status: 404}},
		{{Status: 200, Mode: "stall"}, {Status: 502}, {Status: 200}},
	}
	steps := scripts[r.IntN(len(scripts))]
	limit := vk.Pick(r, "transport-header-timeout", "transport-header-timeout", "client-timeout")
	entry := vk.Pick(r, "roundtripper", "request")
	if limit == "client-timeout" {
		entry = "request" // only there does the client (and its Timeout) run once per attempt
	}
	id := fmt.Sprintf("t%d-%d", idx, c18Ids.Add(1))
	call := &srvCall{steps: steps}
	srv.calls.Store(id, call)
	defer srv.calls.Delete(id)
	req, err := http.NewRequest("GET", srv.srv.URL+fmt.Sprintf("/t/%d", idx), nil)
	if err != nil {
		rep.Inconclusive("C18 could not build a request: " + err.Error())
		return
	}
	req.Header.Set("X-Call", id)
	tr := &http.Transport{}
	defer tr.CloseIdleConnections()
	client := &http.Client{Transport: tr}
	if limit == "client-timeout" {
		client.Timeout = 60 * time.Millisecond
	} else {
		tr.ResponseHeaderTimeout = 40 * time.Millisecond
	}
	ex := failsafe.NewExecutor[*http.Response](failsafehttp.RetryPolicyBuilder().Build())
	var resp *http.Response
	if entry == "roundtripper" {
		resp, err = (&http.Client{Transport: failsafehttp.NewRoundTripperWithExecutor(tr, ex)}).Do(req)
	} else {
		resp, err = failsafehttp.NewRequestWithExecutor(req, client, ex).Do()
	}
	status := 0
	if resp != nil {
		status = resp.StatusCode
		io.Copy(io.Discard, resp.Body)
		resp.Body.Close()
	}
	rep.Eval()
	call.mu.Lock()
	seen := len(call.attempts)
	call.mu.Unlock()
	want := 0
	for k := 0; k < 3; k++ {
		st := steps[min(k, len(steps)-1)]
		want++
		if st.Mode != "stall" && !retryable(st) {
			break
		}
	}
	cs := map[string]any{"limit": limit, "entry": entry, "server_script": steps}
	if seen < want {
		rep.Violate(idx, "C18/attempt-timeout-not-retried", fmt.Sprintf("%s, %s: the server held back the headers of scripted attempts (script %+v) so they ended in net/http's per-attempt timeout, a retryable error; the documented retry rule gives %d attempts, the server saw %d (returned status %d, err %v)", entry, limit, steps, want, seen, status, err), cs)
		return
	}
	if seen > want {
		rep.Count("http_attempt_timeout_calls_with_spurious_timeouts", 1)
		return
	}
	if last := steps[min(seen-1, len(steps)-1)]; err == nil && status != last.Status {
		rep.Violate(idx, "C18/response-is-not-the-last-attempts", fmt.Sprintf("%s, %s: %d attempts, the last one answered %d, the call returned status %d", entry, limit, seen, last.Status, status), cs)
		return
	}
	rep.Count("http_attempt_timeouts_retried", 1)
	rep.Distinct(fmt.Sprintf("attempt-timeout|%s|%s|%d", entry, limit, len(steps)*10+want))
}
