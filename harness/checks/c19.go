package checks

import (
	"context"
	"errors"
	"fmt"
	"io"
	"net/http"
	"regexp"
	"strings"
	"sync"
	"time"

	"google.golang.org/grpc"
	"google.golang.org/grpc/codes"
	"google.golang.org/grpc/metadata"
	"google.golang.org/grpc/status"

	"github.com/failsafe-go/failsafe-go"
	"github.com/failsafe-go/failsafe-go/failsafegrpc"
	"github.com/failsafe-go/failsafe-go/failsafehttp"
	"github.com/failsafe-go/failsafe-go/hedgepolicy"
	"github.com/failsafe-go/failsafe-go/retrypolicy"
	"github.com/failsafe-go/failsafe-go/timeout"

	"verifharness/vk"
)

func init() { register("C19", checkC19) }

var goroutineSplit = regexp.MustCompile(`(?m)^goroutine \d+ \[`)

// libraryGoroutines returns the stacks of live goroutines that have a frame of the library (not counting the caller).
func libraryGoroutines() []string {
	st := allStacks()
	idxs := goroutineSplit.FindAllStringIndex(st, -1)
	var out []string
	for i, ix := range idxs {
		end := len(st)
		if i+1 < len(idxs) {
			end = idxs[i+1][0]
		}
		g := st[ix[0]:end]
		if strings.Contains(g, "github.com/failsafe-go/failsafe-go") && !strings.Contains(g, "libraryGoroutines") {
			out = append(out, g)
		}
	}
	return out
}

func countGoroutinesWith(sub string) int {
	st := allStacks()
	idxs := goroutineSplit.FindAllStringIndex(st, -1)
	n := 0
	for i, ix := range idxs {
		end := len(st)
		if i+1 < len(idxs) {
			end = idxs[i+1][0]
		}
		if strings.Contains(st[ix[0]:end], sub) {
			n++
		}
	}
	return n
}

// awaitNoLibraryGoroutines polls up to the grace period; returns what is still there.
func awaitNoLibraryGoroutines(grace time.Duration) []string {
	dl := time.Now().Add(grace)
	for {
		left := libraryGoroutines()
		if len(left) == 0 || time.Now().After(dl) {
			return left
		}
		time.Sleep(5 * time.Millisecond)
	}
}

func leakSig(stack string) string {
	switch {
	case strings.Contains(stack, "MergeContexts"):
		return "context-merger-goroutine-left"
	case strings.Contains(stack, "hedgepolicy"):
		return "hedge-attempt-goroutine-left"
	case strings.Contains(stack, "timeout.(*executor"):
		return "timeout-goroutine-left"
	case strings.Contains(stack, "executeAsync"):
		return "async-runner-goroutine-left"
	}
	return "library-goroutine-left"
}

func checkC19(rep *vk.Report) {
	rep.Rule = "batches of 40 executions per family, run to completion, then (after every user function, listener and fallback has returned) the process is polled for up to 5s for goroutines that still have a frame of the library; families: Timeout scenarios of C07 (timeouts firing, not firing, racing), cancellation scenarios of C08 (context, deadline, Timeout, async Cancel in functions, delays, waits), hedge scenarios of C09 (winners, losers, blocked attempts), async protocol scenarios of C15, hedges whose parent is cancelled during the hedge delay while a slow function ignores cancellation; HTTP calls of C18 (every context kind, retried 5xx/429, hijacked connections, exhausted retries, firing hedges whose attempts all get 5xx so that the policy drops all but the last, retried answers whose body stalls after the first bytes) through a Transport owned by the batch: after all returned bodies are closed and CloseIdleConnections was called no client connection goroutine may remain, and no context-merger goroutine while the callers' contexts are still alive; round trippers created per call with a nil inner transport (the default transport's idle connections are closed afterwards); gRPC interceptor calls with long-lived metadata contexts. Non-trivial: a batch in which a library goroutine was started (async runner, hedge attempt, timer callback) or a connection was opened; distinct by (family, batch outcome classes)."
	rep.Assumptions = []string{
		"quiescence is established by the calls having returned plus bracket counters around user code, never by sleeping; the 5s grace only bounds how long a finishing goroutine may take",
		"timers are only visible through their effects: an un-stopped timer that expires unobserved later cannot be seen by this family of technique",
		"server-side connection goroutines of the loopback server are not counted, only net/http client persistConn loops of the batch's own Transport",
	}
	families := []string{"timeout", "cancel", "hedge", "async", "hedge-parent-cancelled", "http", "grpc", "timer-after-outside-cancel", "http-default-transport"}
	batches := scale(rep, 42, 2800)
	srv := newC18Server()
	defer srv.srv.Close()
	installYields(rep.Seed)
	defer failsafe.VerifSetYield(nil)
	if pre := awaitNoLibraryGoroutines(2 * time.Second); len(pre) > 0 {
		rep.Inconclusive("library goroutines present before the first batch")
		return
	}
	var half, full int
	for b := 0; b < batches; b++ {
		if rep.Skip(b) {
			continue
		}
		fam := families[b%len(families)]
		c19Batch(rep, b, fam, srv)
		if b == batches/2-1 {
			half = countGoroutinesWith("")
		}
	}
	full = countGoroutinesWith("")
	// total counts include helper goroutines of the harness; growth caused by the library is decided per batch
	// (zero goroutines with library frames, zero client connection loops)
	rep.Extra["all_goroutines_after_first_half_informational"] = half
	rep.Extra["all_goroutines_after_all_batches_informational"] = full
	rep.Extra["library_goroutines_at_end"] = len(libraryGoroutines())
	reportYields(rep)
	rep.Require("batches_clean", 20)
	rep.Require("http_connections_opened", 50)
	rep.Require("library_goroutines_started", 100)
}

func c19Batch(rep *vk.Report, b int, fam string, srv *c18Server) {
	const n = 40
	scratch := vk.NewReport("scratch", rep.Tier, rep.Seed, -1)
	started := int64(0)
	detail := ""
	switch fam {
	case "timeout":
		vk.Parallel(n, 8, func(i int) {
			r := vk.Rng(rep.Seed, "C19t", b*100+i)
			x := &c07Exec{cs: genC07(r), idx: i}
			x.run()
		})
		started = n
	case "cancel":
		vk.Parallel(n, 16, func(i int) {
			r := vk.Rng(rep.Seed, "C19c", b*100+i)
			c08Run(genC08(r), false)
		})
		started = n
	case "hedge":
		vk.Parallel(n, 16, func(i int) { c09Scenario(scratch, b*100+i, "C09") })
		started = n
	case "async":
		vk.Parallel(n, 16, func(i int) { c15Scenario(scratch, b*100+i) })
		started = n
	case "timer-after-outside-cancel":
		// timers are only visible through their effects: a Timeout cancelled from outside whose timer stays armed calls its
		// listener (and cancels again) once the limit passes, long after the execution finished
		vk.Parallel(n/2, 16, func(i int) {
			c07Outside(rep, b*100+i, vk.Rng(rep.Seed, "C19o", b*100+i), "C19")
		})
		started = n / 2
	case "hedge-parent-cancelled":
		vk.Parallel(n, 16, func(i int) {
			r := vk.Rng(rep.Seed, "C19h", b*100+i)
			d := time.Duration(2+r.IntN(6)) * time.Millisecond
			ctx, cancel := context.WithCancel(context.Background())
			time.AfterFunc(d/4, cancel)
			hp := hedgepolicy.BuilderWithDelay[int](d).WithMaxHedges(1 + r.IntN(2)).Build()
			var wg sync.WaitGroup
			fn := func() (int, error) {
				wg.Add(1)
				defer wg.Done()
				time.Sleep(3 * d) // ignores cancellation
				return 1, nil
			}
			if r.IntN(2) == 0 {
				failsafe.NewExecutor[int](hp).WithContext(ctx).Get(fn)
			} else {
				failsafe.NewExecutor[int](retrypolicy.WithDefaults[int](), hp).WithContext(ctx).GetAsync(fn).Get()
			}
			wg.Wait() // every invocation of the user's function has returned
		})
		started = n
	case "http":
		tr := &http.Transport{}
		var keep []context.CancelFunc
		var mu sync.Mutex
		retried := 0
		vk.Parallel(n, 8, func(i int) {
			r := vk.Rng(rep.Seed, "C19http", b*100+i)
			cs := genC18(r)
			cs.CancelAt = ""
			for k := range cs.Steps {
				cs.Steps[k].RetryAfter = ""
				if cs.Steps[k].Mode == "delayed" || cs.Steps[k].Mode == "stall" {
					cs.Steps[k].Mode = ""
				}
			}
			if r.IntN(3) == 0 {
				// body-less answers (204, or a retried 503 without body): nothing for the caller to read, yet the attempt's
				// resources must be released all the same
				for k := range cs.Steps {
					if r.IntN(2) == 0 {
						cs.Steps[k].Mode = "nobody"
						if cs.Steps[k].Status == 200 {
							cs.Steps[k].Status = 204
						}
					}
				}
			}
			if r.IntN(4) == 0 {
				// a firing hedge around the retry policy: the slow primary attempt is overtaken by a hedge branch that has a
				// response retried inside it and then wins
				cs.Stack = "hedge!>retry"
				cs.Steps = []srvStep{{Status: 200, Mode: "delayed", Size: 10}, {Status: vk.Pick(r, 503, 429, 500), Size: vk.Pick(r, 0, 5000)}, {Status: 200, Size: 10}}
				cs.BodyKind, cs.BodySize = "nil", 0
			}
			switch r.IntN(8) {
			case 0:
				// every attempt of a firing hedge gets a 5xx with a body nobody reads; none matches the cancel condition, so the
				// last to finish is returned and the other responses are dropped by the policy: they must be released too
				cs.Stack = "hedgec"
				cs.Steps = []srvStep{{Status: vk.Pick(r, 503, 500), Mode: "delayed", Size: 5000}}
				cs.BodyKind, cs.BodySize = "nil", 0
			case 1:
				// a retried answer whose body stalls after the first bytes: the adapter drops it, which must not depend on the
				// rest of that body ever arriving
				cs.Stack = "retry"
				cs.Steps = []srvStep{{Status: vk.Pick(r, 503, 429), Mode: "stallbody", Size: 20000}, {Status: 200, Size: 10}}
				cs.BodyKind, cs.BodySize = "nil", 0
			}
			id := fmt.Sprintf("l%d-%d-%d", b, i, c18Ids.Add(1))
			call := &srvCall{steps: cs.Steps}
			srv.calls.Store(id, call)
			defer srv.calls.Delete(id)
			body, _, cleanup := c18Body(cs.BodyKind, min(cs.BodySize, 4096), i)
			defer cleanup()
			reqCtx := context.Background()
			if cs.ReqCtx != "background" {
				// a long-lived caller context: it stays alive until after the leak check
				c, cancel := context.WithCancel(context.WithValue(context.Background(), c18CtxKey("req"), "v"))
				reqCtx = c
				if i%2 == 0 {
					// an application-defined context type: contexts derived from it are watched by a goroutine until released
					cc, ccancel := newCustomCtx(context.WithValue(context.Background(), c18CtxKey("req"), "v"))
					reqCtx = cc
					cancel = ccancel
				}
				mu.Lock()
				keep = append(keep, cancel)
				mu.Unlock()
			}
			req, _ := http.NewRequestWithContext(reqCtx, cs.Method, srv.srv.URL+"/leak", body)
			req.Header.Set("X-Call", id)
			ex := failsafe.NewExecutor[*http.Response](c18Stack(cs.Stack)...)
			if cs.ExecCtx != "none" {
				var c context.Context
				var cancel context.CancelFunc
				c, cancel = context.WithCancel(context.Background())
				if i%3 == 0 && !strings.Contains(cs.Stack, "timeout") && !strings.Contains(cs.Stack, "hedge") {
					// the executor's context, too, may be of an application-defined type: whatever the ADAPTER makes watch it on
					// behalf of an attempt must be released with the attempt. (Not with a Timeout or hedge policy in the stack:
					// those derive a child context per attempt which, by C07/C09, stays uncancelled after a normal return and is
					// therefore watched for as long as the caller's context lives.)
					c, cancel = newCustomCtx(context.Background())
				}
				mu.Lock()
				keep = append(keep, cancel)
				mu.Unlock()
				ex = ex.WithContext(c)
			}
			var resp *http.Response
			var err error
			// every fourth call goes through an inner RoundTripper whose response bodies report an error from Close (after
			// really closing): a stream reset, a failing wrapper. The attempt's resources must be released all the same
			var inner http.RoundTripper = tr
			if r.IntN(4) == 0 {
				inner = closeErrRT{tr}
			}
			if cs.Entry == "roundtripper" {
				resp, err = (&http.Client{Transport: failsafehttp.NewRoundTripperWithExecutor(inner, ex)}).Do(req)
			} else {
				resp, err = failsafehttp.NewRequestWithExecutor(req, &http.Client{Transport: inner}, ex).Do()
			}
			// the caller closes everything it was handed
			if resp != nil {
				io.Copy(io.Discard, resp.Body)
				resp.Body.Close()
			}
			var xe retrypolicy.ExceededError
			if err != nil && asExceeded(err, &xe) {
				if lr, ok := xe.LastResult.(*http.Response); ok && lr != nil {
					io.Copy(io.Discard, lr.Body)
					lr.Body.Close()
				}
			}
			call.mu.Lock()
			na := len(call.attempts)
			call.mu.Unlock()
			mu.Lock()
			for k := 0; k+1 < na; k++ {
				if st := cs.Steps[min(k, len(cs.Steps)-1)]; st.Mode != "hijack" {
					retried++ // a response the adapter obtained and did not return
				}
			}
			mu.Unlock()
			rep.Count("http_connections_opened", int64(na))
		})
		tr.CloseIdleConnections()
		dl := time.Now().Add(5 * time.Second)
		left := 0
		for {
			left = countGoroutinesWith("net/http.(*persistConn).readLoop")
			if left == 0 || time.Now().After(dl) {
				break
			}
			time.Sleep(5 * time.Millisecond)
		}
		mergers := libraryGoroutines()
		// contexts derived by the adapter from an application-defined caller context are watched by a goroutine of the
		// context package until they are released; none may be left once every body is closed
		watchers := 0
		for w := 0; w < 500; w++ {
			if watchers = countGoroutinesWith("context.(*cancelCtx).propagateCancel"); watchers == 0 {
				break
			}
			time.Sleep(2 * time.Millisecond)
		}
		for _, c := range keep {
			c()
		}
		if watchers > 0 {
			rep.Violate(b, "C19/attempt-context-never-released", fmt.Sprintf("after every returned body was closed, %d contexts derived for attempts are still being watched (goroutines in context.propagateCancel) while the callers' contexts are alive", watchers), map[string]any{"family": fam, "batch": b})
			return
		}
		if left > 0 {
			sig := "http-connection-left-open"
			if retried > 0 {
				sig = "http-connection-left-open-by-unclosed-retried-response"
			}
			rep.Violate(b, "C19/"+sig, fmt.Sprintf("after every returned body was closed and CloseIdleConnections was called, %d client connections are still open (%d retried responses were obtained by the adapter in this batch)", left, retried), map[string]any{"family": fam, "batch": b})
			// abandon the connections so that later batches start clean
			tr.CloseIdleConnections()
			srv.srv.CloseClientConnections()
			time.Sleep(50 * time.Millisecond)
			return
		}
		if len(mergers) > 0 {
			rep.Violate(b, "C19/"+leakSig(mergers[0]), fmt.Sprintf("%d library goroutines are still alive after the HTTP batch while the callers' contexts are alive, e.g.\n%s", len(mergers), mergers[0][:min(len(mergers[0]), 1500)]), map[string]any{"family": fam, "batch": b})
			return
		}
		detail = fmt.Sprintf("retried=%v", retried > 0)
		started = n
	case "http-default-transport":
		// round trippers created again and again with a nil inner transport (per request, per job) all use the process-wide
		// default transport: after every body was closed, closing ITS idle connections leaves no client connection behind
		dt, _ := http.DefaultTransport.(*http.Transport)
		if dt == nil {
			return
		}
		dt.CloseIdleConnections()
		vk.Parallel(n, 4, func(i int) {
			id := fmt.Sprintf("d%d-%d-%d", b, i, c18Ids.Add(1))
			call := &srvCall{steps: []srvStep{{Status: 503, Size: 10}, {Status: 200, Size: 10}}}
			srv.calls.Store(id, call)
			defer srv.calls.Delete(id)
			req, _ := http.NewRequest("GET", srv.srv.URL+"/default", nil)
			req.Header.Set("X-Call", id)
			rt := failsafehttp.NewRoundTripper(nil, failsafehttp.RetryPolicyBuilder().WithMaxRetries(2).Build())
			resp, err := (&http.Client{Transport: rt}).Do(req)
			if err == nil && resp != nil {
				io.Copy(io.Discard, resp.Body)
				resp.Body.Close()
			}
			rep.Count("http_connections_opened", 2)
		})
		dt.CloseIdleConnections()
		dl := time.Now().Add(5 * time.Second)
		left := 0
		for {
			left = countGoroutinesWith("net/http.(*persistConn).readLoop")
			if left == 0 || time.Now().After(dl) {
				break
			}
			time.Sleep(5 * time.Millisecond)
		}
		if left > 0 {
			rep.Violate(b, "C19/http-connection-left-open", fmt.Sprintf("%d calls, each through a fresh NewRoundTripper(nil, retry policy): after every body was closed and the default transport's idle connections were closed, %d client connections are still open", n, left), map[string]any{"family": fam, "batch": b})
			srv.srv.CloseClientConnections()
			time.Sleep(50 * time.Millisecond)
			return
		}
		detail = "default-transport"
		started = n
	case "grpc":
		var keep []context.CancelFunc
		var mu sync.Mutex
		vk.Parallel(n, 8, func(i int) {
			r := vk.Rng(rep.Seed, "C19g", b*100+i)
			ctx, cancel := context.WithCancel(metadata.NewOutgoingContext(context.Background(), metadata.Pairs("k", "v")))
			mu.Lock()
			keep = append(keep, cancel)
			mu.Unlock()
			pols := grpcStack(vk.Pick(r, "retry", "retry>timeout", "none", "retry>hedge"))
			calls := 0
			inv := func(c context.Context, m string, rq, rp any, cc *grpc.ClientConn, o ...grpc.CallOption) error {
				calls++
				if calls < 2 {
					return status.Error(codes.Unavailable, "x")
				}
				return nil
			}
			failsafegrpc.NewUnaryClientInterceptor[*grpcReply](pols...)(ctx, "/s/M", &grpcReq{}, &grpcReply{}, nil, inv)
			h := func(c context.Context, rq any) (any, error) { return &grpcReply{}, nil }
			failsafegrpc.NewUnaryServerInterceptor[*grpcReply](pols...)(ctx, &grpcReq{}, &grpc.UnaryServerInfo{}, h)
		})
		left := awaitNoLibraryGoroutines(5 * time.Second)
		for _, c := range keep {
			c()
		}
		if len(left) > 0 {
			rep.Violate(b, "C19/"+leakSig(left[0]), fmt.Sprintf("%d library goroutines are still alive after the gRPC batch while the callers' contexts are alive, e.g.\n%s", len(left), left[0][:min(len(left[0]), 1500)]), map[string]any{"family": fam, "batch": b})
			return
		}
		started = n
	}
	rep.EvalN(n)
	rep.Count("library_goroutines_started", started)
	left := awaitNoLibraryGoroutines(5 * time.Second)
	if len(left) > 0 {
		rep.Violate(b, "C19/"+leakSig(left[0]), fmt.Sprintf("family %s: %d goroutines with library frames are still alive 5s after every execution of the batch completed, e.g.\n%s", fam, len(left), left[0][:min(len(left[0]), 1500)]), map[string]any{"family": fam, "batch": b})
		return
	}
	rep.Count("batches_clean", 1)
	rep.Distinct(fmt.Sprintf("%s|%d|%s", fam, b%7, detail))
	if rep.WantSample() {
		rep.Sample(map[string]any{"family": fam, "batch": b, "executions": n, "library_goroutines_left": 0})
	}
}

func asExceeded(err error, xe *retrypolicy.ExceededError) bool {
	for err != nil {
		if e, ok := err.(retrypolicy.ExceededError); ok {
			*xe = e
			return true
		}
		u, ok := err.(interface{ Unwrap() error })
		if !ok {
			return false
		}
		err = u.Unwrap()
	}
	return false
}

var _ = timeout.ErrExceeded

// customCtx is an application-defined context type with its own Done channel: contexts derived from it by the standard
// library are watched by a goroutine (context.propagateCancel) until they are cancelled.
type customCtx struct {
	parent context.Context
	done   chan struct{}
	once   sync.Once
}

func newCustomCtx(parent context.Context) (*customCtx, context.CancelFunc) {
	c := &customCtx{parent: parent, done: make(chan struct{})}
	return c, func() { c.once.Do(func() { close(c.done) }) }
}

func (c *customCtx) Deadline() (time.Time, bool) { return c.parent.Deadline() }
func (c *customCtx) Done() <-chan struct{}       { return c.done }
func (c *customCtx) Value(k any) any             { return c.parent.Value(k) }
func (c *customCtx) Err() error {
	select {
	case <-c.done:
		return context.Canceled
	default:
		return nil
	}
}

// closeErrRT wraps every response body so that Close closes the underlying body and then reports an error.
type closeErrRT struct{ next http.RoundTripper }

func (c closeErrRT) RoundTrip(r *http.Request) (*http.Response, error) {
	resp, err := c.next.RoundTrip(r)
	if resp != nil && resp.Body != nil {
		resp.Body = closeErrBody{resp.Body}
	}
	return resp, err
}

type closeErrBody struct{ io.ReadCloser }

func (b closeErrBody) Close() error {
	b.ReadCloser.Close()
	return errors.New("stream reset while closing")
}
