package checks

import (
	"errors"
	"fmt"
	"runtime"
	"sync/atomic"
	"time"

	"github.com/failsafe-go/failsafe-go"
	"github.com/failsafe-go/failsafe-go/retrypolicy"

	"verifharness/vk"
)

// cancelStress: an async execution under an unlimited, delay-free retry policy whose function always fails is always
// "in progress"; ExecutionResult.Cancel at a PRNG-chosen instant must therefore always end it with
// ErrExecutionCanceled. High volume, no yield hooks: this is what reaches windows of a few tens of nanoseconds between
// recording the cancel result and cancelling the context.
func cancelStress(rep *vk.Report, prop string, base, n int) {
	var bad atomic.Int64
	vk.Parallel(n, 16, func(i int) {
		idx := base + i
		if rep.Skip(idx) {
			return
		}
		r := vk.Rng(rep.Seed, "cancelstress", idx)
		spin := r.IntN(400)
		var calls atomic.Int64
		rp := retrypolicy.Builder[int]().WithMaxRetries(-1).Build()
		fn := func() (int, error) {
			if calls.Add(1)%7 == 0 {
				runtime.Gosched()
			}
			return 0, errE1
		}
		var ar failsafe.ExecutionResult[int]
		if r.IntN(2) == 0 {
			ar = failsafe.NewExecutor[int](rp).GetAsync(fn)
		} else {
			ar = failsafe.NewExecutor[int](rp).GetWithExecutionAsync(func(failsafe.Execution[int]) (int, error) { return fn() })
		}
		for s := 0; s < spin; s++ {
			runtime.Gosched()
		}
		ar.Cancel()
		select {
		case <-ar.Done():
		case <-time.After(20 * time.Second):
			rep.Violate(idx, prop+"/cancel-stress-never-done", "an endlessly retrying async execution did not complete within 20s of Cancel", nil)
			rep.Abort()
			return
		}
		_, err := ar.Get()
		rep.Eval()
		rep.Count("cancel_stress_executions", 1)
		if calls.Load() > 1 {
			rep.Count("cancel_stress_cancelled_between_attempts_or_later", 1)
		}
		if !errors.Is(err, failsafe.ErrExecutionCanceled) {
			if bad.Add(1) <= 3 {
				rep.Violate(idx, prop+"/cancel-stress-wrong-error", fmt.Sprintf("Cancel on an endlessly retrying async execution (after %d attempts) completed with %v, not ErrExecutionCanceled", calls.Load(), err), map[string]any{"spin": spin})
			}
			return
		}
		if i%500 == 0 {
			rep.Distinct(fmt.Sprintf("cancelstress|%d", min(int(calls.Load()), 50)))
		}
	})
}
