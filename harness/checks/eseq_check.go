package checks

import (
	"fmt"
	"github.com/failsafe-go/failsafe-go"
	"hash/fnv"
	"strings"

	"verifharness/vk"
)

func init() {
	register("C01", func(r *vk.Report) {
		eseqCheck(r, "C01", "", []string{"inv", "ret", "verdict", "state"})
		// what an inner policy did in an earlier attempt must not colour a later result: Retry(Timeout(fn)), attempt 1 timed
		// out and was retried, the execution is cancelled from outside during attempt 2 -> the cancellation, not ErrExceeded
		vk.Parallel(scale(r, 200, 10000), 32, func(i int) {
			if r.Skip(40000000 + i) {
				return
			}
			c08AfterTimedOutAttempt(r, 40000000+i, "C01")
		})
		r.Rule += " Plus Retry(Timeout(fn)) with a first attempt that times out and a cancellation from outside during the second: the caller receives the cancellation's cause."
	})
	register("C10", func(r *vk.Report) {
		eseqCheck(r, "C10", "fallback", []string{"fallback", "ret", "verdict", "events:fb."})
		vk.Parallel(scale(r, 300, 20000), 8, func(i int) {
			if r.Skip(80000000 + i) {
				return
			}
			c10Overlapping(r, 80000000+i)
		})
		r.Rule += " Plus rounds in which ONE fallback instance (function, result, error kind; the function takes 200us) serves 2-8 goroutines' overlapping executions, or the hedged attempts of Hedge(Fallback(fn)): every handled failure gets the fallback applied exactly once (returned output, function invocations and OnFallbackExecuted events equal the handled failures)."
	})
	register("C11", func(r *vk.Report) {
		eseqCheck(r, "C11", "cache", []string{"cache", "inv", "ret", "state", "events:cache.", "events:brk.", "events:rl.", "events:bh."})
		n := scale(r, 300, 20000)
		vk.Parallel(n, 4, func(i int) {
			if r.Skip(13000000 + i) {
				return
			}
			c11Concurrent(r, 13000000+i)
		})
		vk.Parallel(scale(r, 2000, 100000), 8, func(i int) {
			if r.Skip(14000000 + i) {
				return
			}
			c11ResultTypes(r, 14000000+i)
		})
		r.Rule += " Plus result types with nil/zero values (any, error, interfaces, pointers, slices, maps, string, struct{}; Get and Run entry points; entries preloaded or stored by an execution): an entry holding a nil or zero value is an entry - the next execution with its key must be a hit (function not invoked, value returned, hit and no miss event, no new Set)."
		r.Rule += " Plus concurrent rounds: 2-18 goroutines with 2-6 different context keys overlap on one cache policy; every value encodes the key it was produced for, so a value served or stored under another key is a violation."
	})
	register("C16", func(r *vk.Report) {
		eseqCheck(r, "C16", "events", []string{"events", "verdict"})
		// breaker state-change events under standalone and manual operations with listener subsets (connected path,
		// specific + generic pairing, no event without a transition)
		nb := scale(r, 3000, 200000)
		vk.Parallel(nb, 16, func(i int) {
			if r.Skip(20000000 + i) {
				return
			}
			runBreakerHistory(r, 20000000+i, "C16")
		})
		nr := scale(r, 400, 20000)
		vk.Parallel(nr, 32, func(i int) {
			if r.Skip(25000000 + i) {
				return
			}
			c16Rejections(r, 25000000+i)
		})
		vk.Parallel(scale(r, 300, 10000), 16, func(i int) {
			if r.Skip(26000000 + i) {
				return
			}
			c16ExecutorCopies(r, 26000000+i)
			c16AsyncCancelConsistency(r, 27000000+i)
		})
		vk.Parallel(scale(r, 1500, 60000), 4, func(i int) {
			if r.Skip(28000000 + i) {
				return
			}
			c16ConcurrentBreakerEvents(r, 28000000+i)
		})
		// with the library's yield points perturbing the schedule (between the retry executor's "already gave up?" check
		// and its handling of a failure, in the hedge loop)
		installYields(r.Seed)
		vk.Parallel(scale(r, 600, 30000), 16, func(i int) {
			if r.Skip(29000000 + i) {
				return
			}
			c16ExceededOnce(r, 29000000+i)
		})
		failsafe.VerifSetYield(nil)
		vk.Parallel(scale(r, 60, 3000), 16, func(i int) {
			if r.Skip(31000000 + i) {
				return
			}
			c16LimiterWaitCancelledAfterRejection(r, 31000000+i)
		})
		// concurrent executions sharing listeners: exactly one OnDone and one of OnSuccess/OnFailure per execution
		rr := vk.Rng(r.Seed, "C16c", 0)
		comps := c14Compositions(rr, true)
		for ci := 0; ci < len(comps); ci += scale(r, 3, 1) {
			if r.Skip(30000000 + ci) {
				continue
			}
			c14Round(r, "C16", 30000000+ci, comps[ci], ci)
		}
		r.Rule += " Plus executor copies (WithContext with nil/background/value contexts: listeners of the copy and the original stay separate) and async executions cancelled while a cancellation-ignoring function runs or from the OnDone listener (events must match what Get returns). Plus rejection-event scenarios (bulkhead/limiter refused, or cancelled by context, deadline or outer Timeout while queueing: OnFull/OnRateLimitExceeded fire exactly for refusals), 3 000 breaker histories with manual Open/HalfOpen/Close and listener subsets (events only), 1 500 rounds of 2-8 goroutines driving one zero-delay breaker through executions, records and manual transitions with slow listeners (the event log must be a connected path ending in the breaker's final state, specific and generic listeners in step), Retry(Retry) and Hedge(Retry) executions in which the inner retry policy is re-entered after it gave up by max retries, max duration or abort (its OnRetriesExceeded/OnAbort fire at most once per execution), and concurrent rounds over shared executors where each execution must see exactly one OnDone and one of OnSuccess/OnFailure (attribution by a per-execution counter carried in the context)."
	})
	register("C17", func(r *vk.Report) {
		eseqCheck(r, "C17", "stats", []string{"stats", "events:retry.", "events:fb."})
		// statistics identity when an execution is cancelled in a retry delay, a policy wait or inside the function
		// (the cancellation scenarios of C08, judged here only on the done event's counters)
		n := scale(r, 1500, 60000)
		base := 10000000
		vk.Parallel(n, 32, func(i int) {
			if r.Skip(base + i) {
				return
			}
			c08Scenario(r, base+i, "C17")
		})
		// hedged executions with overlapping attempts (the hedge scenarios of C09, judged here on statistics only)
		nh := scale(r, 1500, 60000)
		vk.Parallel(nh, 24, func(i int) {
			if r.Skip(11000000 + i) {
				return
			}
			c09Scenario(r, 11000000+i, "C17")
		})
		nrh := scale(r, 600, 30000)
		vk.Parallel(nrh, 16, func(i int) {
			if r.Skip(12000000 + i) {
				return
			}
			c17RetryHedge(r, 12000000+i)
		})
		r.Rule += " Plus executions that both retry and hedge (either nesting): done event identity, Retries == OnRetry events, Hedges == OnHedge events."
		r.Rule += " Plus hedge scenarios with overlapping attempts: exactly one attempt has IsHedge()==false, the number with true equals the OnHedge events, counters inside attempts stay within their bounds and the done event satisfies Attempts == 1 + Hedges + Retries."
		r.Rule += " Plus cancellation scenarios (context, deadline, Timeout, async Cancel landing in delays, waits, listeners and the function): the done event must satisfy Attempts == 1 + Retries + Hedges."
	})
}

func facetLines(log []entry, facet string) []string {
	f, sub, _ := strings.Cut(facet, ":")
	var out []string
	for _, e := range log {
		if e.F == f && (sub == "" || strings.Contains(e.T, ":"+sub)) {
			out = append(out, e.T)
		}
	}
	return out
}

// compareLogs returns the first facet on which the logs differ, with both renderings.
func compareLogs(real, mod []entry, facets []string) (string, string) {
	for _, f := range facets {
		a, b := facetLines(real, f), facetLines(mod, f)
		if strings.Join(a, "\n") != strings.Join(b, "\n") {
			// first differing line
			i := 0
			for i < len(a) && i < len(b) && a[i] == b[i] {
				i++
			}
			ra, rb := "<none>", "<none>"
			if i < len(a) {
				ra = a[i]
			}
			if i < len(b) {
				rb = b[i]
			}
			return f, fmt.Sprintf("facet %s, entry #%d: observed %q, model %q (observed %d entries, model %d)", f, i, ra, rb, len(a), len(b))
		}
	}
	return "", ""
}

func hashStr(parts ...string) string {
	h := fnv.New64a()
	for _, p := range parts {
		h.Write([]byte(p))
		h.Write([]byte{0})
	}
	return fmt.Sprintf("%x", h.Sum64())
}

type eseqRule struct {
	rule        string
	assumptions []string
}

var eseqRules = map[string]eseqRule{
	"C01": {rule: "random program = ordered composition (1-5, with repetition) of the eight policy kinds with boundary-biased configurations x history of 1-6 executions (scripts of 1-8 outcomes, blocking steps under a short Timeout, clock advances, all eight entry points) against the same instances; observed invocation count, returned result/error, executor verdict listeners and public state of stateful policies after each execution are compared with the nesting interpreter. Non-trivial: >=2 policies, or one that intervened (invocations != 1 or result changed); distinct by (kinds sequence, per-execution invocation count and returned outcome class)."},
	"C10": {rule: "programs biased to contain fallbacks (WithResult/WithError/WithFunc x handle-condition lists) around every other policy kind; compared: fallback function invocations and the LastResult/LastError/statistics it is shown, OnFallbackExecuted/OnSuccess/OnFailure of the fallback, returned value, executor verdict. Non-trivial: a fallback was applied at least once; distinct by (kinds, fallback kind+conditions, failed outcomes handled)."},
	"C11": {rule: "programs biased to contain cache policies (configured key ''/'a', context key absent/'a'/'b'/''/non-string, preloaded content, CacheIf none/always/result==5/error) around and inside other policies; compared: every Get/Set on an instrumented cache, cache events, invocation count, returned value, cache contents and the state/events of policies inside the cache policy. Non-trivial: >=1 hit or store; distinct by (kinds, key pattern, get/set sequence)."},
	"C16": {rule: "programs with PRNG-chosen listener subsets per policy (all, none, only one, random) and executor listener subsets; the complete ordered event log of each execution (every listener the builders expose, with payload) is compared with the model's. Non-trivial: >=3 events in an execution; distinct by (kinds, listener masks, event-name sequence)."},
	"C17": {rule: "programs biased to retries; statistics snapshots (Attempts, Executions, Retries, Hedges, IsHedge, IsFirstAttempt/IsRetry consistency, LastResult/LastError) at every function entry, in every listener and in the done event are compared with the model's counters; the result and error each retry-policy and fallback listener is shown (LastResult/LastError of its event) are compared too. Non-trivial: >=1 retry or rejected attempt; distinct by (kinds, snapshot sequence)."},
}

func eseqCheck(rep *vk.Report, prop, bias string, facets []string) {
	rr := eseqRules[prop]
	rep.Rule = rr.rule
	rep.Assumptions = []string{
		"reference interpreter harness/checks/eseq_model.go written from the package documentation; ambiguities A1, A2, A5, A11 of DESIGN.md",
		"R4: a short (25ms) Timeout is only paired with steps that block until cancelled; transparent hedges (1h delay); a mismatch in a program with a short Timeout is re-run up to 3 times from scratch before it counts (timing disturbance)",
		"programs on which the model itself does not terminate (unlimited retry around a permanent rejection) are truncated at the diverging execution",
	}
	n := scale(rep, 20000, 600000)
	vk.Parallel(n, 16, func(idx int) {
		if rep.Skip(idx) {
			return
		}
		r := vk.Rng(rep.Seed, "ESEQ-"+prop, idx)
		prog := genProgram(r, bias)
		tries := 1
		if prog.hasShort {
			tries = 3
		}
		var facet, detail string
		var xi int
		for t := 0; t < tries; t++ {
			facet, detail, xi = runProgram(rep, prop, prog, facets, t == 0)
			if facet == "" {
				break
			}
			rep.Count("reruns_after_mismatch_with_short_timeout", 1)
		}
		rep.Eval()
		if facet != "" {
			rep.Violate(idx, prop+"/"+strings.Split(facet, ":")[0]+"-mismatch", fmt.Sprintf("composition %s, execution #%d: %s", prog.kinds(), xi, detail), prog)
		}
	})
	rep.Require("executions_compared", 1000)
	rep.Require("nontrivial_programs", 100)
}

// runProgram runs the history for real and in the model (both A1 choices) and compares per execution.
func runProgram(rep *vk.Report, prop string, prog program, facets []string, account bool) (facet, detail string, xi int) {
	m0, m1 := newMprog(prog), newMprog(prog)
	m1.a1 = true
	rp := newRprog(prog)
	nontrivial := false
	var keyParts []string
	alt := false // following the A1 alternative
	for xi = range prog.Execs {
		l0, d0, t0 := m0.runExec(xi)
		l1, d1, t1 := m1.runExec(xi)
		if t1 > t0 {
			t0 = t1
		}
		if d0 || d1 {
			if account {
				rep.Count("programs_truncated_model_diverges", 1)
			}
			break
		}
		inv := len(facetLines(l0, "inv"))
		if n := len(facetLines(l1, "inv")); n > inv {
			inv = n
		}
		real, runaway, disturbed := rp.runExec(xi, inv, t0)
		if runaway {
			return "inv", fmt.Sprintf("execution did not terminate within the model's bound of %d invocations (run-away guard)", inv), xi
		}
		if disturbed {
			if account {
				rep.Count("executions_discarded_timing_disturbance", 1)
			}
			return "", "", xi // the rest of the history is not comparable
		}
		mod := l0
		if alt {
			mod = l1
		}
		f, d := compareLogs(real, mod, facets)
		if f != "" && !alt {
			if f1, _ := compareLogs(real, l1, facets); f1 == "" {
				alt, f = true, ""
				if account {
					rep.Count("A1_alternative_followed", 1)
				}
			}
		}
		if f != "" {
			return f, d, xi
		}
		if account {
			rep.Count("executions_compared", 1)
			for _, fc := range facets {
				rep.Count("entries_compared_"+strings.Split(fc, ":")[0], int64(len(facetLines(real, fc))))
			}
		}
		nt, key := eseqNontrivial(prop, prog, mod)
		nontrivial = nontrivial || nt
		keyParts = append(keyParts, key)
	}
	if account && nontrivial {
		rep.Count("nontrivial_programs", 1)
		rep.Distinct(hashStr(append([]string{prog.kinds()}, keyParts...)...))
		if rep.WantSample() && len(prog.Pols) >= 2 && len(prog.Pols) <= 3 && len(prog.Execs) <= 2 {
			rep.Sample(prog)
		}
	}
	return "", "", 0
}

func eseqNontrivial(prop string, prog program, mod []entry) (bool, string) {
	inv := len(facetLines(mod, "inv"))
	ret := strings.Join(facetLines(mod, "ret"), "")
	switch prop {
	case "C01":
		return len(prog.Pols) >= 2 || inv != 1, fmt.Sprintf("%d|%s", inv, ret)
	case "C10":
		fb := facetLines(mod, "events:fb.executed")
		fn := facetLines(mod, "fallback")
		masks := ""
		for _, p := range prog.Pols {
			if p.Kind == "fallback" {
				masks += fmt.Sprintf("%s%v;", p.FbKind, p.Handle)
			}
		}
		return len(fb)+len(fn) > 0, masks + strings.Join(fn, ";") + ret
	case "C11":
		c := facetLines(mod, "cache")
		hits := facetLines(mod, "events:cache.hit")
		sets := 0
		for _, l := range c {
			if strings.Contains(l, ":set ") {
				sets++
			}
		}
		return len(hits)+sets > 0, strings.Join(c, ";") + ret
	case "C16":
		ev := facetLines(mod, "events")
		names := make([]string, len(ev))
		for i, l := range ev {
			names[i] = strings.SplitN(l, " ", 2)[0]
		}
		masks := fmt.Sprint(prog.ExecLis)
		for _, p := range prog.Pols {
			masks += fmt.Sprintf(",%d", p.Listeners)
		}
		return len(ev) >= 3, masks + strings.Join(names, ";")
	case "C17":
		st := facetLines(mod, "stats")
		return inv != 1 || strings.Contains(strings.Join(st, ""), "r=1"), strings.Join(st, ";")
	}
	return true, ""
}
