package checks

import (
	"errors"
	"fmt"

	"github.com/failsafe-go/failsafe-go/bulkhead"
	"github.com/failsafe-go/failsafe-go/circuitbreaker"
	"github.com/failsafe-go/failsafe-go/ratelimiter"
	"github.com/failsafe-go/failsafe-go/retrypolicy"
	"github.com/failsafe-go/failsafe-go/timeout"

	"verifharness/model"
)

// entry is one observation; logs are compared facet by facet.
type entry struct {
	F string // inv | ret | verdict | events | stats | state | cache | fallback
	T string
}

func edesc(err error) string {
	if err == nil {
		return "nil"
	}
	return fmt.Sprintf("%T|%v", err, err)
}

func odesc(res int, err error) string { return fmt.Sprintf("(%d,%s)", res, edesc(err)) }

// listener bit positions
const (
	lisSuccess = 0
	lisFailure = 1
	// retry
	lisAbort     = 2
	lisScheduled = 3
	lisRetry     = 4
	lisExceeded  = 5
	// breaker
	lisChanged  = 2
	lisOpen     = 3
	lisHalfOpen = 4
	lisClose    = 5
	// fallback
	lisFbExecuted = 2
	// cache
	lisHit    = 0
	lisMiss   = 1
	lisCached = 2
)

func (p polSpec) has(bit int) bool { return p.Listeners&(1<<bit) != 0 }

// mres is a policy result in the model.
type mres struct {
	res        int
	err        error
	success    bool
	successAll bool
}

// mprog is the model-side state of a program's stateful policies (persists across the history).
type mprog struct {
	prog  program
	now   int64
	brk   map[int]*model.Breaker
	lim   map[int]*model.Limiter
	taken map[int]int
	cache map[int]map[string]int
	a1    bool // A1 choice: abort match on the exhausting attempt returns the outcome unchanged instead of ExceededError
}

func newMprog(p program) *mprog {
	m := &mprog{prog: p, brk: map[int]*model.Breaker{}, lim: map[int]*model.Limiter{}, taken: map[int]int{}, cache: map[int]map[string]int{}}
	for i, pl := range p.Pols {
		switch pl.Kind {
		case "breaker":
			m.brk[i] = model.NewBreaker(*pl.Brk)
		case "limiter":
			m.lim[i] = newLimiterModel(*pl.Rl)
		case "bulkhead":
			m.taken[i] = pl.Pre
		case "cache":
			m.cache[i] = map[string]int{}
			if pl.Preload {
				m.cache[i]["a"] = 4141
			}
		}
	}
	return m
}

type retryState struct {
	failed    int
	exhausted bool
}

// mexec interprets one execution.
type mexec struct {
	m                                     *mprog
	x                                     execSpec
	xi                                    int
	log                                   []entry
	attempts, retries, hedges, executions int
	inv                                   int
	lastRes                               int
	lastErr                               error
	cancelled                             bool
	cancelLevel                           int
	rs                                    map[int]*retryState
	fuel                                  int
	diverged                              bool
	judgeLast                             bool
	a1used                                bool
	timeouts                              int
}

func (e *mexec) add(f, t string) { e.log = append(e.log, entry{f, t}) }

func (e *mexec) stats() string {
	return fmt.Sprintf("a=%d x=%d r=%d h=%d", e.attempts, e.executions, e.retries, e.hedges)
}

// ev records a policy event with its payload (events facet) and the statistics visible in it (stats facet).
func (e *mexec) ev(level int, name string, res int, err error) {
	e.add("events", fmt.Sprintf("L%d:%s %s", level, name, odesc(res, err)))
	e.add("stats", fmt.Sprintf("L%d:%s %s", level, name, e.stats()))
}

func (e *mexec) cancelResult() mres { return mres{0, timeout.ErrExceeded, false, false} }

func (e *mexec) shortLevel() int {
	for i, p := range e.m.prog.Pols {
		if p.Kind == "timeout" && p.Short {
			return i
		}
	}
	return -1
}

func (e *mexec) run(level int) mres {
	e.fuel--
	if e.fuel < 0 {
		e.diverged = true
		return mres{}
	}
	pols := e.m.prog.Pols
	if level == len(pols) {
		return e.fn()
	}
	p := pols[level]
	inner := func() mres { return e.run(level + 1) }
	switch p.Kind {
	case "retry":
		st := e.rs[level]
		if st == nil {
			st = &retryState{}
			e.rs[level] = st
		}
		for {
			r := inner()
			if e.diverged {
				return r
			}
			if e.cancelled {
				return e.cancelResult()
			}
			if st.exhausted {
				// the policy gave up earlier in this execution: what comes back now is passed through, not handled again
				// (no events, no ExceededError), but an outcome the policy classifies as a failure is still a failure (D15)
				if p.Handle.isFailure(r.res, r.err) {
					return mres{r.res, r.err, false, false}
				}
				return r
			}
			if !p.Handle.isFailure(r.res, r.err) {
				if p.has(lisSuccess) {
					e.ev(level, "retry.success", r.res, r.err)
				}
				return mres{r.res, r.err, true, r.successAll}
			}
			if p.has(lisFailure) {
				e.ev(level, "retry.failure", r.res, r.err)
			}
			st.failed++
			exceeded := p.MaxRetries != -1 && st.failed > p.MaxRetries
			st.exhausted = exceeded
			abort, _ := p.Abort.matches(r.res, r.err)
			if abort && p.has(lisAbort) {
				e.ev(level, "retry.abort", r.res, r.err)
			}
			if exceeded {
				if !abort && p.has(lisExceeded) {
					e.ev(level, "retry.exceeded", r.res, r.err)
				}
				if abort {
					e.a1used = true
				}
				if !p.ReturnLast && !(abort && e.m.a1) {
					return mres{0, retrypolicy.ExceededError{LastResult: r.res, LastError: r.err}, false, false}
				}
			}
			if abort || exceeded {
				return mres{r.res, r.err, false, false}
			}
			e.lastRes, e.lastErr = r.res, r.err
			if p.has(lisScheduled) {
				e.ev(level, "retry.scheduled", r.res, r.err)
			}
			if p.LongDelay {
				// the enclosing short Timeout fires while the policy waits out the delay; the retry is never started
				e.timeoutFires()
				return e.cancelResult()
			}
			e.attempts++
			e.retries++
			if p.has(lisRetry) {
				e.ev(level, "retry.retry", r.res, r.err)
			}
			e.fuel--
			if e.fuel < 0 {
				e.diverged = true
				return mres{}
			}
		}
	case "breaker":
		b := e.m.brk[level]
		b.Now = e.m.now
		b.Events = nil
		ok, _ := b.TryAcquire(-1)
		e.brkEvents(level, p, b)
		if !ok {
			return mres{0, circuitbreaker.ErrOpen, false, false}
		}
		r := inner()
		if e.diverged {
			return r
		}
		b.Events = nil
		if p.Handle.isFailure(r.res, r.err) {
			if p.has(lisFailure) {
				e.ev(level, "brk.failure", r.res, r.err)
			}
			b.Record(true, p.Brk.Delay, -1)
			e.brkEvents(level, p, b)
			return mres{r.res, r.err, false, false}
		}
		if p.has(lisSuccess) {
			e.ev(level, "brk.success", r.res, r.err)
		}
		b.Record(false, p.Brk.Delay, -1)
		e.brkEvents(level, p, b)
		return mres{r.res, r.err, true, r.successAll}
	case "limiter":
		if e.m.lim[level].Acquire(e.m.now, 1, 0) == -1 {
			if p.has(0) {
				e.ev(level, "rl.exceeded", 0, nil)
			}
			return mres{0, ratelimiter.ErrExceeded, false, false}
		}
		return inner()
	case "bulkhead":
		if e.m.taken[level] >= p.Cap {
			if p.has(0) {
				e.ev(level, "bh.full", 0, nil)
			}
			return mres{0, bulkhead.ErrFull, false, false}
		}
		e.m.taken[level]++
		r := inner()
		e.m.taken[level]--
		return r
	case "timeout":
		r := inner()
		if e.diverged {
			return r
		}
		if p.Short && e.cancelled && e.cancelLevel == level {
			e.cancelled = false
			return mres{0, timeout.ErrExceeded, false, false}
		}
		if r.err != nil && errors.Is(r.err, timeout.ErrExceeded) {
			return mres{r.res, r.err, false, false}
		}
		return mres{r.res, r.err, true, r.successAll}
	case "hedge":
		r := inner()
		if e.cancelled {
			return e.cancelResult()
		}
		return r
	case "fallback":
		r := inner()
		if e.diverged {
			return r
		}
		if !p.Handle.isFailure(r.res, r.err) {
			if p.has(lisSuccess) {
				e.ev(level, "fb.success", r.res, r.err)
			}
			return mres{r.res, r.err, true, r.successAll}
		}
		if p.has(lisFailure) {
			e.ev(level, "fb.failure", r.res, r.err)
		}
		if e.cancelled {
			return e.cancelResult()
		}
		fres, ferr := fbOutput(p, r.res, r.err)
		if p.FbKind == "func" {
			e.add("fallback", fmt.Sprintf("L%d:fb.fn last=%s %s", level, odesc(r.res, r.err), e.stats()))
		}
		if p.has(lisFbExecuted) {
			e.ev(level, "fb.executed", fres, ferr)
		}
		ok := !p.Handle.isFailure(fres, ferr)
		return mres{fres, ferr, ok, ok}
	case "cache":
		key := cacheKeyFor(p, e.x)
		c := e.m.cache[level]
		if key != "" {
			e.add("cache", fmt.Sprintf("L%d:get %q", level, key))
			if v, ok := c[key]; ok {
				if p.has(lisHit) {
					e.ev(level, "cache.hit", v, nil)
				}
				return mres{v, nil, true, true}
			}
		}
		if p.has(lisMiss) && key != "" { // A5: a miss without any key is not judged
			e.ev(level, "cache.miss", 0, nil)
		}
		r := inner()
		if e.diverged {
			return r
		}
		should := false
		switch p.CacheIf {
		case "":
			should = r.err == nil
		case "always":
			should = true
		case "res5":
			should = r.res == 5
		case "err":
			should = r.err != nil
		}
		if should && key != "" {
			c[key] = r.res
			e.add("cache", fmt.Sprintf("L%d:set %q=%d", level, key, r.res))
			if p.has(lisCached) {
				e.ev(level, "cache.cached", r.res, r.err)
			}
		}
		return r
	}
	panic("unknown kind " + p.Kind)
}

func (e *mexec) brkEvents(level int, p polSpec, b *model.Breaker) {
	for _, ev := range b.Events {
		name := map[int]string{model.Open: "brk.open", model.HalfOpen: "brk.halfopen", model.Closed: "brk.close"}[ev.New]
		bit := map[int]int{model.Open: lisOpen, model.HalfOpen: lisHalfOpen, model.Closed: lisClose}[ev.New]
		if p.has(bit) {
			e.add("events", fmt.Sprintf("L%d:%s %d>%d", level, name, ev.Old, ev.New))
		}
		if p.has(lisChanged) {
			e.add("events", fmt.Sprintf("L%d:brk.changed %d>%d", level, ev.Old, ev.New))
		}
	}
	b.Events = nil
}

// fbOutput is what the fallback produces for a failed outcome.
func fbOutput(p polSpec, res int, err error) (int, error) {
	switch p.FbKind {
	case "result":
		return p.FbRes, nil
	case "error":
		return 0, c02Errs[p.FbErr]
	}
	// func: depends on what it is shown as the last result/error
	if err != nil {
		return p.FbRes, nil
	}
	return res + 1, c02Errs[p.FbErr]
}

func cacheKeyFor(p polSpec, x execSpec) string {
	switch x.CtxKey {
	case "-", "#":
		return p.Key
	}
	return x.CtxKey // a string supplied through the context takes precedence, even when empty (A5)
}

func isRunEntry(entry int) bool { return entry%4 < 2 }

// timeoutFires models the enclosing short Timeout expiring now: listener, then cancellation of everything inside it.
func (e *mexec) timeoutFires() {
	sl := e.shortLevel()
	if sl < 0 || e.cancelled {
		return
	}
	p := e.m.prog.Pols[sl]
	if p.has(0) {
		e.add("events", fmt.Sprintf("L%d:timeout.exceeded %s", sl, odesc(0, timeout.ErrExceeded)))
		e.add("stats", fmt.Sprintf("L%d:timeout.exceeded %s", sl, e.stats()))
	}
	e.timeouts++
	e.cancelled = true
	e.cancelLevel = sl
}

func (e *mexec) fn() mres {
	k := e.inv
	e.inv++
	e.add("inv", "fn.enter")
	if e.x.Entry%2 == 1 {
		e.add("stats", fmt.Sprintf("fn.enter#%d %s hedge=false", k, e.stats()))
	}
	if e.judgeLast && e.x.Entry%2 == 1 {
		e.add("stats", fmt.Sprintf("fn.enter#%d last=%s", k, odesc(e.lastRes, e.lastErr)))
	}
	st := estep{Res: 5}
	if k < len(e.x.Script) {
		st = e.x.Script[k]
	}
	if st.Block {
		e.timeoutFires()
	}
	e.executions++
	res := st.Res
	if isRunEntry(e.x.Entry) {
		res = 0
	}
	return mres{res, c02Errs[st.Err], true, true}
}

// runExec interprets execution xi of the history; returns the log and whether the model diverged (discard).
func (m *mprog) runExec(xi int) (log []entry, diverged bool, timeouts int) {
	x := m.prog.Execs[xi]
	m.now += x.Advance
	e := &mexec{m: m, x: x, xi: xi, attempts: 1, rs: map[int]*retryState{}, fuel: 400, judgeLast: judgeLast(m.prog)}
	r := e.run(0)
	if e.diverged {
		return nil, true, 0
	}
	if isRunEntry(x.Entry) {
		e.add("ret", "(-,"+edesc(r.err)+")") // Run entry points return the error only
	} else {
		e.add("ret", odesc(r.res, r.err))
	}
	lis := m.prog.ExecLis
	if r.successAll && lis&1 != 0 {
		e.add("verdict", "exec.success")
		e.add("events", "exec.success "+odesc(r.res, r.err))
		e.add("stats", "exec.success "+e.stats())
	} else if !r.successAll && lis&2 != 0 {
		e.add("verdict", "exec.failure")
		e.add("events", "exec.failure "+odesc(r.res, r.err))
		e.add("stats", "exec.failure "+e.stats())
	}
	if lis&4 != 0 {
		e.add("verdict", "exec.done")
		e.add("events", "exec.done "+odesc(r.res, r.err))
		e.add("stats", "exec.done "+e.stats())
	}
	// public state of stateful policies after the execution
	for i, p := range m.prog.Pols {
		switch p.Kind {
		case "breaker":
			b := m.brk[i]
			alts, _ := b.MetricsAlts()
			e.add("state", fmt.Sprintf("L%d:brk %s execs=%d fails=%d", i, model.StateName(b.State), alts[0].Execs, alts[0].Fails))
		case "bulkhead":
			e.add("state", fmt.Sprintf("L%d:bh free=%d", i, p.Cap-m.taken[i]))
		case "limiter":
			ok := m.lim[i].Acquire(m.now, 1, 0) != -1
			e.add("state", fmt.Sprintf("L%d:rl probe=%v", i, ok))
		case "cache":
			e.add("state", fmt.Sprintf("L%d:cache %v", i, m.cache[i]))
		}
	}
	return e.log, false, e.timeouts
}

// judgeLast: LastResult/LastError seen by attempts is exact unless several retry layers are separated by a policy
// that copies the execution (A11).
func judgeLast(p program) bool {
	first, last := -1, -1
	for i, pl := range p.Pols {
		if pl.Kind == "retry" {
			if first < 0 {
				first = i
			}
			last = i
		}
	}
	if first == last {
		return true
	}
	for i := first; i < last; i++ {
		if k := p.Pols[i].Kind; k == "timeout" || k == "hedge" {
			return false
		}
	}
	return true
}
