package checks

import (
	"context"
	"fmt"
	"sync"
	"sync/atomic"
	"time"

	"github.com/failsafe-go/failsafe-go"
	"github.com/failsafe-go/failsafe-go/bulkhead"
	"github.com/failsafe-go/failsafe-go/cachepolicy"
	"github.com/failsafe-go/failsafe-go/circuitbreaker"
	"github.com/failsafe-go/failsafe-go/fallback"
	"github.com/failsafe-go/failsafe-go/hedgepolicy"
	"github.com/failsafe-go/failsafe-go/ratelimiter"
	"github.com/failsafe-go/failsafe-go/timeout"

	"verifharness/model"
)

const shortLimit = 25 * time.Millisecond

// rlog is the observation log of one real execution.
type rlog struct {
	mu  sync.Mutex
	log []entry
	// run-away guard for loops that never reach the function (an unlimited retry around a policy that keeps rejecting):
	// once the log is far longer than anything the model produces for this execution, overflow is called once
	limit    int
	overflow func()
}

func (l *rlog) add(f, t string) {
	l.mu.Lock()
	l.log = append(l.log, entry{f, t})
	over := l.limit > 0 && len(l.log) == l.limit && l.overflow != nil
	l.mu.Unlock()
	if over {
		l.overflow()
	}
}

type infoStats interface {
	Attempts() int
	Executions() int
	Retries() int
	Hedges() int
}

func statsOf(i infoStats) string {
	return fmt.Sprintf("a=%d x=%d r=%d h=%d", i.Attempts(), i.Executions(), i.Retries(), i.Hedges())
}

// instrumented cache
type icache struct {
	mu    sync.Mutex
	m     map[string]int
	level int
	rp    *rprog
}

func (c *icache) Get(key string) (int, bool) {
	c.mu.Lock()
	defer c.mu.Unlock()
	c.rp.cur().add("cache", fmt.Sprintf("L%d:get %q", c.level, key))
	v, ok := c.m[key]
	return v, ok
}

func (c *icache) Set(key string, v int) {
	c.mu.Lock()
	defer c.mu.Unlock()
	c.rp.cur().add("cache", fmt.Sprintf("L%d:set %q=%d", c.level, key, v))
	c.m[key] = v
}

// rprog is a program instantiated with real policies.
type rprog struct {
	prog    program
	now     atomic.Int64
	pols    []failsafe.Policy[int]
	brk     map[int]circuitbreaker.CircuitBreaker[int]
	lim     map[int]ratelimiter.RateLimiter[int]
	bh      map[int]bulkhead.Bulkhead[int]
	caches  map[int]*icache
	curLog  atomic.Pointer[rlog]
	curExec atomic.Int64
	// disturbance accounting for timing-robustness (short timeouts)
	timeoutsFired atomic.Int64
}

func (rp *rprog) cur() *rlog { return rp.curLog.Load() }

func (rp *rprog) ev(level int, name string, res int, err error, st infoStats) {
	l := rp.cur()
	l.add("events", fmt.Sprintf("L%d:%s %s", level, name, odesc(res, err)))
	l.add("stats", fmt.Sprintf("L%d:%s %s", level, name, statsOf(st)))
}

func (rp *rprog) attemptEv(level int, name string) func(e failsafe.ExecutionEvent[int]) {
	return func(e failsafe.ExecutionEvent[int]) { rp.ev(level, name, e.LastResult(), lastErrOf(e), e) }
}

// lastErrOf returns the event's LastError, except that (A12) an event delivered while the execution is cancelled reports
// the context's error in place of a nil error (documented accessor behaviour); scripts never produce context errors.
func lastErrOf(e failsafe.ExecutionAttempt[int]) error {
	err := e.LastError()
	if ce := e.Context().Err(); ce != nil && err == ce {
		return nil
	}
	return err
}

func newRprog(p program) *rprog {
	rp := &rprog{prog: p, brk: map[int]circuitbreaker.CircuitBreaker[int]{}, lim: map[int]ratelimiter.RateLimiter[int]{}, bh: map[int]bulkhead.Bulkhead[int]{}, caches: map[int]*icache{}}
	for i, pl := range p.Pols {
		i, pl := i, pl
		// builders are sometimes built once early (result discarded) and then configured further: what the final
		// Build returns must reflect exactly its own configuration
		earlyBuild := (i+len(p.Pols)+int(pl.Listeners))%3 == 0
		switch pl.Kind {
		case "retry":
			b := buildRetry(retryCfg{MaxRetries: pl.MaxRetries, Handle: pl.Handle, Abort: pl.Abort, ReturnLast: pl.ReturnLast})
			if pl.LongDelay {
				b.WithDelay(time.Hour)
			}
			if earlyBuild {
				_ = b.Build()
			}
			if pl.has(lisSuccess) {
				b.OnSuccess(rp.attemptEv(i, "retry.success"))
			}
			if pl.has(lisFailure) {
				b.OnFailure(rp.attemptEv(i, "retry.failure"))
			}
			if pl.has(lisAbort) {
				b.OnAbort(rp.attemptEv(i, "retry.abort"))
			}
			if pl.has(lisScheduled) {
				b.OnRetryScheduled(func(e failsafe.ExecutionScheduledEvent[int]) {
					rp.ev(i, "retry.scheduled", e.LastResult(), lastErrOf(e), e)
				})
			}
			if pl.has(lisRetry) {
				b.OnRetry(rp.attemptEv(i, "retry.retry"))
			}
			if pl.has(lisExceeded) {
				b.OnRetriesExceeded(rp.attemptEv(i, "retry.exceeded"))
			}
			rp.pols = append(rp.pols, b.Build())
		case "breaker":
			b := buildBreaker(*pl.Brk, func() int64 { return rp.now.Load() })
			if earlyBuild {
				_ = b.Build()
			}
			applyHandle[circuitbreaker.CircuitBreakerBuilder[int]](b, pl.Handle)
			if pl.has(lisSuccess) {
				b.OnSuccess(rp.attemptEv(i, "brk.success"))
			}
			if pl.has(lisFailure) {
				b.OnFailure(rp.attemptEv(i, "brk.failure"))
			}
			sc := func(name string) func(e circuitbreaker.StateChangedEvent) {
				return func(e circuitbreaker.StateChangedEvent) {
					rp.cur().add("events", fmt.Sprintf("L%d:%s %d>%d", i, name, int(e.OldState), int(e.NewState)))
				}
			}
			if pl.has(lisChanged) {
				b.OnStateChanged(sc("brk.changed"))
			}
			if pl.has(lisOpen) {
				b.OnOpen(sc("brk.open"))
			}
			if pl.has(lisHalfOpen) {
				b.OnHalfOpen(sc("brk.halfopen"))
			}
			if pl.has(lisClose) {
				b.OnClose(sc("brk.close"))
			}
			cb := b.Build()
			rp.brk[i] = cb
			rp.pols = append(rp.pols, cb)
		case "limiter":
			var onEx func()
			l := buildLimiter(*pl.Rl, 0, onEx, func() time.Duration { return time.Duration(rp.now.Load()) })
			if pl.has(0) {
				// rebuild with the listener (the builder API needs it before Build)
				var b ratelimiter.RateLimiterBuilder[int]
				if pl.Rl.Smooth {
					b = ratelimiter.SmoothBuilderWithMaxRate[int](time.Duration(pl.Rl.Interval))
				} else {
					b = ratelimiter.BurstyBuilder[int](uint(pl.Rl.Max), time.Duration(pl.Rl.Period))
				}
				b.OnRateLimitExceeded(func(e failsafe.ExecutionEvent[int]) { rp.ev(i, "rl.exceeded", 0, nil, e) })
				l = b.Build()
				ratelimiter.VerifWithStopwatch(l, func() time.Duration { return time.Duration(rp.now.Load()) })
			}
			rp.lim[i] = l
			rp.pols = append(rp.pols, l)
		case "bulkhead":
			b := bulkhead.Builder[int](uint(pl.Cap))
			if pl.has(0) {
				b.OnFull(func(e failsafe.ExecutionEvent[int]) { rp.ev(i, "bh.full", 0, nil, e) })
			}
			bh := b.Build()
			for k := 0; k < pl.Pre; k++ {
				bh.TryAcquirePermit()
			}
			rp.bh[i] = bh
			rp.pols = append(rp.pols, bh)
		case "timeout":
			lim := time.Hour
			if pl.Short {
				lim = shortLimit
			}
			b := timeout.Builder[int](lim)
			if pl.Short || pl.has(0) {
				reg := pl.has(0)
				b.OnTimeoutExceeded(func(e failsafe.ExecutionDoneEvent[int]) {
					rp.timeoutsFired.Add(1)
					if reg {
						rp.ev(i, "timeout.exceeded", e.Result, e.Error, e)
					}
				})
			}
			rp.pols = append(rp.pols, b.Build())
		case "hedge":
			hd := time.Hour
			if pl.WaitDelay {
				hd = 60 * time.Millisecond
			}
			b := hedgepolicy.BuilderWithDelay[int](hd).WithMaxHedges(pl.MaxHedges)
			if pl.CancelNone {
				b.CancelIf(func(int, error) bool { return false })
			}
			if pl.has(0) {
				b.OnHedge(rp.attemptEv(i, "hedge.hedge"))
			}
			rp.pols = append(rp.pols, b.Build())
		case "fallback":
			fn := func(exec failsafe.Execution[int]) (int, error) {
				rp.cur().add("fallback", fmt.Sprintf("L%d:fb.fn last=%s %s", i, odesc(exec.LastResult(), exec.LastError()), statsOf(exec)))
				return fbOutput(pl, exec.LastResult(), exec.LastError())
			}
			var b fallback.FallbackBuilder[int]
			switch pl.FbKind {
			case "result":
				// the library's own WithResult/WithError are used; the invocation is then observed through the listener only
				b = fallback.BuilderWithResult[int](pl.FbRes)
			case "error":
				b = fallback.BuilderWithError[int](c02Errs[pl.FbErr])
			default:
				b = fallback.BuilderWithFunc[int](fn)
			}
			if earlyBuild {
				_ = b.Build()
			}
			applyHandle[fallback.FallbackBuilder[int]](b, pl.Handle)
			if pl.has(lisSuccess) {
				b.OnSuccess(rp.attemptEv(i, "fb.success"))
			}
			if pl.has(lisFailure) {
				b.OnFailure(rp.attemptEv(i, "fb.failure"))
			}
			if pl.has(lisFbExecuted) {
				b.OnFallbackExecuted(func(e failsafe.ExecutionDoneEvent[int]) { rp.ev(i, "fb.executed", e.Result, e.Error, e) })
			}
			rp.pols = append(rp.pols, b.Build())
		case "cache":
			c := &icache{m: map[string]int{}, level: i, rp: rp}
			if pl.Preload {
				c.m["a"] = 4141
			}
			rp.caches[i] = c
			b := cachepolicy.Builder[int](c)
			if earlyBuild {
				_ = b.Build()
			}
			if pl.Key != "" {
				b.WithKey(pl.Key)
			}
			switch pl.CacheIf {
			case "always":
				b.CacheIf(func(int, error) bool { return true })
			case "res5":
				b.CacheIf(func(r int, _ error) bool { return r == 5 })
			case "err":
				b.CacheIf(func(_ int, e error) bool { return e != nil })
			}
			if pl.has(lisHit) {
				b.OnCacheHit(func(e failsafe.ExecutionDoneEvent[int]) { rp.ev(i, "cache.hit", e.Result, e.Error, e) })
			}
			if pl.has(lisMiss) {
				b.OnCacheMiss(func(e failsafe.ExecutionEvent[int]) {
					if cacheKeyFor(pl, rp.prog.Execs[rp.curExec.Load()]) != "" { // A5
						rp.ev(i, "cache.miss", 0, nil, e)
					}
				})
			}
			if pl.has(lisCached) {
				b.OnResultCached(rp.attemptEv(i, "cache.cached"))
			}
			rp.pols = append(rp.pols, b.Build())
		}
	}
	return rp
}

// runExec runs execution xi for real. Returns the log, whether it had to be stopped by the run-away guard, and whether a
// timing disturbance was seen (a short timeout fired although no step blocked, or a non-blocking step saw cancellation).
func (rp *rprog) runExec(xi int, modelInv int, modelTimeouts int) (log []entry, runaway bool, disturbed bool) {
	x := rp.prog.Execs[xi]
	rp.now.Add(x.Advance)
	rp.curExec.Store(int64(xi))
	l := &rlog{}
	rp.curLog.Store(l)
	rp.timeoutsFired.Store(0)
	ctx, cancel := context.WithCancel(context.Background())
	defer cancel()
	switch x.CtxKey {
	case "a", "b", "":
		ctx = context.WithValue(ctx, cachepolicy.CacheKey, x.CtxKey)
	case "#":
		ctx = context.WithValue(ctx, cachepolicy.CacheKey, 42)
	}
	// the completion listeners are registered after WithContext on even executions and before it on odd ones (the executor
	// returned by WithContext inherits what was registered on the one it was derived from)
	ex := failsafe.NewExecutor[int](rp.pols...)
	if xi%2 == 0 {
		ex = ex.WithContext(ctx)
	}
	if rp.prog.ExecLis&1 != 0 {
		ex = ex.OnSuccess(func(e failsafe.ExecutionDoneEvent[int]) {
			l.add("verdict", "exec.success")
			l.add("events", "exec.success "+odesc(e.Result, e.Error))
			l.add("stats", "exec.success "+statsOf(e))
		})
	}
	if rp.prog.ExecLis&2 != 0 {
		ex = ex.OnFailure(func(e failsafe.ExecutionDoneEvent[int]) {
			l.add("verdict", "exec.failure")
			l.add("events", "exec.failure "+odesc(e.Result, e.Error))
			l.add("stats", "exec.failure "+statsOf(e))
		})
	}
	if rp.prog.ExecLis&4 != 0 {
		ex = ex.OnDone(func(e failsafe.ExecutionDoneEvent[int]) {
			l.add("verdict", "exec.done")
			l.add("events", "exec.done "+odesc(e.Result, e.Error))
			l.add("stats", "exec.done "+statsOf(e))
		})
	}
	if xi%2 != 0 {
		ex = ex.WithContext(ctx)
	}
	var inv atomic.Int64
	var blocked atomic.Int64
	var sawCancelEarly atomic.Bool
	jl := judgeLast(rp.prog)
	var stop atomic.Bool
	l.limit, l.overflow = 4000+200*modelInv, func() { stop.Store(true); cancel() }
	var timesMu sync.Mutex
	var firstStart, lastAttemptStart time.Time
	body := func(exec failsafe.Execution[int]) (int, error) {
		k := int(inv.Add(1)) - 1
		l.add("inv", "fn.enter")
		if k > modelInv+3 {
			stop.Store(true)
			cancel() // run-away guard: more invocations than the nesting admits
			return 5, nil
		}
		if exec != nil {
			l.add("stats", fmt.Sprintf("fn.enter#%d %s hedge=%v", k, statsOf(exec), exec.IsHedge()))
			if jl {
				l.add("stats", fmt.Sprintf("fn.enter#%d last=%s", k, odesc(exec.LastResult(), exec.LastError())))
			}
			if exec.IsFirstAttempt() != (exec.Attempts() == 1) || exec.IsRetry() != (exec.Attempts() > 1) {
				l.add("stats", fmt.Sprintf("fn.enter#%d IsFirstAttempt/IsRetry disagree with Attempts=%d", k, exec.Attempts()))
			}
			// start times and elapsed times are monotone: one StartTime per execution, no attempt starts before the
			// execution did, attempt start times never go backwards, nothing lies in the future
			st, at, now := exec.StartTime(), exec.AttemptStartTime(), time.Now()
			timesMu.Lock()
			if k == 0 {
				firstStart, lastAttemptStart = st, at
			}
			switch {
			case !st.Equal(firstStart):
				l.add("stats", fmt.Sprintf("fn.enter#%d StartTime changed within the execution", k))
			case at.Before(st):
				l.add("stats", fmt.Sprintf("fn.enter#%d AttemptStartTime is %v before StartTime", k, st.Sub(at)))
			case at.Before(lastAttemptStart):
				l.add("stats", fmt.Sprintf("fn.enter#%d AttemptStartTime went backwards by %v", k, lastAttemptStart.Sub(at)))
			case at.After(now) || st.After(now):
				l.add("stats", fmt.Sprintf("fn.enter#%d start time lies in the future", k))
			case exec.ElapsedAttemptTime() > exec.ElapsedTime()+time.Millisecond:
				l.add("stats", fmt.Sprintf("fn.enter#%d ElapsedAttemptTime exceeds ElapsedTime", k))
			}
			if at.After(lastAttemptStart) {
				lastAttemptStart = at
			}
			timesMu.Unlock()
		}
		st := estep{Res: 5}
		if k < len(x.Script) {
			st = x.Script[k]
		}
		if exec != nil && exec.IsHedge() && !exec.IsCanceled() {
			// E-seq hedges never fire by construction (1h delay, or a 60ms delay that the short Timeout pre-empts by
			// cancelling the parent). A hedge attempt that starts with a live context means the machine stalled past the
			// hedge delay before the Timeout's timer ran: a timing disturbance. A hedge attempt that starts although its
			// context is already cancelled is a genuine extra attempt and stays in the comparison.
			sawCancelEarly.Store(true)
		}
		if st.Block && exec != nil && rp.prog.hasShort {
			blocked.Add(1)
			lr0, le0 := exec.LastResult(), exec.LastError()
			select {
			case <-exec.Canceled():
			case <-time.After(20 * time.Second):
				l.add("inv", "blocking step never saw cancellation")
			}
			// what the attempt is shown as the last result must not change under its feet when the Timeout cancels it
			// (A12: a nil LastError legitimately turns into the context's error)
			if lr1, le1 := exec.LastResult(), exec.LastError(); lr1 != lr0 || (le0 != nil && le1 != le0) {
				l.add("stats", fmt.Sprintf("fn#%d LastResult/LastError changed during the attempt: %s -> %s", k, odesc(lr0, le0), odesc(lr1, le1)))
			}
		} else if exec != nil && exec.IsCanceled() {
			sawCancelEarly.Store(true)
		}
		return st.Res, c02Errs[st.Err]
	}
	// statistics are only visible to the function through the WithExecution entry points; the model logs them always, so
	// the comparison drops the fn.enter stats lines for the other entry points (see compareLogs)
	var res int
	var err error
	done := make(chan struct{})
	go func() {
		defer close(done)
		switch x.Entry {
		case 0:
			err = ex.Run(func() error { _, e := body(nil); return e })
		case 1:
			err = ex.RunWithExecution(func(exec failsafe.Execution[int]) error { _, e := body(exec); return e })
		case 2:
			res, err = ex.Get(func() (int, error) { return body(nil) })
		case 3:
			res, err = ex.GetWithExecution(body)
		case 4:
			err = ex.RunAsync(func() error { _, e := body(nil); return e }).Error()
		case 5:
			err = ex.RunWithExecutionAsync(func(exec failsafe.Execution[int]) error { _, e := body(exec); return e }).Error()
		case 6:
			res, err = ex.GetAsync(func() (int, error) { return body(nil) }).Get()
		case 7:
			res, err = ex.GetWithExecutionAsync(body).Get()
		}
	}()
	select {
	case <-done:
	case <-time.After(30 * time.Second):
		stop.Store(true)
		cancel()
		<-done
	}
	if isRunEntry(x.Entry) {
		l.add("ret", "(-,"+edesc(err)+")")
	} else {
		l.add("ret", odesc(res, err))
	}
	if stop.Load() {
		return l.log, true, false
	}
	// post state (quiescent: sequential program, execution returned)
	for i, p := range rp.prog.Pols {
		switch p.Kind {
		case "breaker":
			cb := rp.brk[i]
			mt := cb.Metrics()
			l.add("state", fmt.Sprintf("L%d:brk %s execs=%d fails=%d", i, model.StateName(int(cb.State())), mt.Executions(), mt.Failures()))
		case "bulkhead":
			n := 0
			for rp.bh[i].TryAcquirePermit() {
				n++
			}
			for k := 0; k < n; k++ {
				rp.bh[i].ReleasePermit()
			}
			l.add("state", fmt.Sprintf("L%d:bh free=%d", i, n))
		case "limiter":
			l.add("state", fmt.Sprintf("L%d:rl probe=%v", i, rp.lim[i].TryAcquirePermit()))
		case "cache":
			c := rp.caches[i]
			c.mu.Lock()
			l.add("state", fmt.Sprintf("L%d:cache %v", i, c.m))
			c.mu.Unlock()
		}
	}
	disturbed = sawCancelEarly.Load() || int(rp.timeoutsFired.Load()) > modelTimeouts
	_ = blocked.Load()
	l.mu.Lock()
	defer l.mu.Unlock()
	return l.log, false, disturbed
}
