package checks

import (
	"fmt"
	"math/rand/v2"

	"verifharness/model"
	"verifharness/vk"
)

// E-seq: the sequential differential engine. A program is a composition of policy specs plus a history of executions
// (scripts of function outcomes) that runs against the same policy instances; it is executed for real and through the
// reference interpreter in eseq_model.go, and the two observation logs are compared.

type polSpec struct {
	Kind string `json:"kind"` // retry breaker limiter bulkhead timeout hedge fallback cache

	// retry
	MaxRetries int     `json:"max_retries,omitempty"`
	Abort      condSet `json:"abort,omitempty"`
	ReturnLast bool    `json:"return_last,omitempty"`
	LongDelay  bool    `json:"long_delay,omitempty"` // 1h retry delay; only inside a short Timeout, which fires during the delay
	// retry, breaker, fallback
	Handle condSet `json:"handle,omitempty"`
	// breaker (count based kinds only: deterministic)
	Brk *model.BreakerCfg `json:"brk,omitempty"`
	// limiter
	Rl *rlCfg `json:"rl,omitempty"`
	// bulkhead
	Cap int `json:"cap,omitempty"`
	Pre int `json:"pre,omitempty"`
	// timeout
	Short bool `json:"short,omitempty"`
	// hedge (transparent: 1h delay)
	MaxHedges  int  `json:"max_hedges,omitempty"`
	CancelNone bool `json:"cancel_never,omitempty"` // only with MaxHedges == 0, or with WaitDelay
	// WaitDelay: 60ms hedge delay, cancel conditions that never match, MaxHedges >= 1. Only generated inside a short Timeout
	// in programs whose every step blocks: the Timeout cancels the hedge's parent before the delay elapses, so the policy
	// must return the cancellation result when the delay is over instead of starting a hedge.
	WaitDelay bool `json:"wait_delay,omitempty"`
	// fallback
	FbKind string `json:"fb_kind,omitempty"` // result | error | func
	FbRes  int    `json:"fb_res,omitempty"`
	FbErr  int    `json:"fb_err,omitempty"` // index into c02Errs
	// cache
	Key     string `json:"key,omitempty"`
	CacheIf string `json:"cache_if,omitempty"` // "" | always | res5 | err
	Preload bool   `json:"preload,omitempty"`

	Listeners uint32 `json:"listeners"` // bit i = i-th listener of the kind registered
}

type estep struct {
	Res   int  `json:"res"`
	Err   int  `json:"err"`
	Block bool `json:"block,omitempty"` // wait for cancellation before returning
}

type execSpec struct {
	Entry   int     `json:"entry"`   // 0 Run 1 RunWithExecution 2 Get 3 GetWithExecution, +4 async
	CtxKey  string  `json:"ctx_key"` // "-" absent, "a", "b", "" empty string, "#" non-string value
	Advance int64   `json:"advance,omitempty"`
	Script  []estep `json:"script"`
}

type program struct {
	Pols     []polSpec  `json:"policies"`
	Execs    []execSpec `json:"executions"`
	ExecLis  uint32     `json:"executor_listeners"` // bit0 OnSuccess bit1 OnFailure bit2 OnDone
	Bias     string     `json:"bias"`
	hasShort bool
}

func (p program) kinds() string {
	s := ""
	for i, pl := range p.Pols {
		if i > 0 {
			s += ">"
		}
		s += pl.Kind
		if pl.Kind == "timeout" && pl.Short {
			s += "!"
		}
	}
	return s
}

func genListeners(r *rand.Rand, n int) uint32 {
	all := uint32(1)<<n - 1
	switch r.IntN(6) {
	case 0:
		return 0
	case 1:
		return uint32(r.Uint32()) & all
	case 2:
		return uint32(1) << r.IntN(n) // exactly one
	}
	return all
}

var eseqHandles = []condSet{{}, {}, {"E"}, {"R"}, {"I"}, {"E", "R"}, {"Tv"}, {"R", "I"}, {"TT"}, {"TT2", "R"}, {"EE2"}, {"Es"}, {"Es", "R"}}

func genPol(r *rand.Rand, kind string) polSpec {
	p := polSpec{Kind: kind}
	switch kind {
	case "retry":
		p.MaxRetries = vk.Pick(r, 0, 1, 2, 2, 5, -1)
		p.Handle = eseqHandles[r.IntN(len(eseqHandles))]
		p.Abort = vk.Pick(r, condSet{}, condSet{}, condSet{"E"}, condSet{"I"}, condSet{"Tv"}, condSet{"TT"}, condSet{"EE2"})
		p.ReturnLast = r.IntN(2) == 0
		p.Listeners = genListeners(r, 6)
	case "breaker":
		c := model.BreakerCfg{FailThreshold: 1, FailCapacity: 1}
		if r.IntN(2) == 0 {
			c.Kind = "count"
			n := uint(1 + r.IntN(3))
			c.FailThreshold, c.FailCapacity = n, n
		} else {
			c.Kind = "ratio"
			n := uint(1 + r.IntN(4))
			k := uint(1 + r.IntN(int(n)))
			c.FailThreshold, c.FailCapacity = k, n
		}
		switch r.IntN(3) {
		case 1:
			c.SuccKind = "count"
			n := uint(1 + r.IntN(2))
			c.SuccThreshold, c.SuccCapacity = n, n
		case 2:
			c.SuccKind = "ratio"
			n := uint(1 + r.IntN(3))
			k := uint(1 + r.IntN(int(n)))
			c.SuccThreshold, c.SuccCapacity = k, n
		}
		c.Delay = vk.Pick(r, int64(0), 10, 1000)
		p.Brk = &c
		p.Handle = eseqHandles[r.IntN(len(eseqHandles))]
		p.Listeners = genListeners(r, 6)
	case "limiter":
		c := rlCfg{Smooth: r.IntN(2) == 0, Interval: 100, Period: 100, Max: int64(1 + r.IntN(3))}
		p.Rl = &c
		p.Listeners = genListeners(r, 1)
	case "bulkhead":
		p.Cap = 1 + r.IntN(2)
		p.Pre = r.IntN(p.Cap + 1)
		if r.IntN(3) != 0 {
			p.Pre = 0
		}
		p.Listeners = genListeners(r, 1)
	case "timeout":
		p.Listeners = genListeners(r, 1)
	case "hedge":
		p.MaxHedges = r.IntN(3)
		if p.MaxHedges == 0 {
			p.CancelNone = r.IntN(2) == 0
		}
		p.Listeners = genListeners(r, 1)
	case "fallback":
		p.FbKind = vk.Pick(r, "result", "error", "func")
		p.FbRes = vk.Pick(r, -1, 7, 0, 9)
		p.FbErr = vk.Pick(r, 1, 2, 3)
		p.Handle = eseqHandles[r.IntN(len(eseqHandles))]
		p.Listeners = genListeners(r, 3)
	case "cache":
		p.Key = vk.Pick(r, "", "a", "a")
		p.CacheIf = vk.Pick(r, "", "", "always", "res5", "err")
		p.Preload = r.IntN(4) == 0
		p.Listeners = genListeners(r, 3)
	}
	return p
}

var allKinds = []string{"retry", "breaker", "limiter", "bulkhead", "timeout", "hedge", "fallback", "cache"}

// genProgram generates one program; bias steers the composition towards a property's subject.
func genProgram(r *rand.Rand, bias string) program {
	if (bias == "" || bias == "events" || bias == "stats") && r.IntN(60) == 0 {
		return genHedgeWaitProgram(r, bias)
	}
	p := program{Bias: bias}
	n := 1 + r.IntN(5)
	var must string
	switch bias {
	case "fallback":
		must = "fallback"
	case "cache":
		must = "cache"
	case "stats":
		must = "retry"
	}
	shortAt := -1
	for i := 0; i < n; i++ {
		k := allKinds[r.IntN(len(allKinds))]
		if must != "" && r.IntN(3) == 0 {
			k = must
		}
		pl := genPol(r, k)
		if k == "timeout" && shortAt < 0 && r.IntN(2) == 0 {
			pl.Short = true
			shortAt = i
		}
		p.Pols = append(p.Pols, pl)
	}
	if must != "" {
		has := false
		for _, pl := range p.Pols {
			has = has || pl.Kind == must
		}
		if !has {
			i := r.IntN(len(p.Pols))
			if p.Pols[i].Short {
				shortAt = -1
			}
			p.Pols[i] = genPol(r, must)
		}
	}
	p.hasShort = shortAt >= 0
	for i := range p.Pols {
		if p.Pols[i].Kind == "retry" && p.hasShort && i > shortAt && r.IntN(4) == 0 {
			p.Pols[i].LongDelay = true
		}
	}
	p.ExecLis = vk.Pick(r, uint32(7), 7, 7, 5, 6, 3, 1, 2, 4, 0)
	ne := 1 + r.IntN(6)
	for e := 0; e < ne; e++ {
		x := execSpec{Entry: r.IntN(8), CtxKey: vk.Pick(r, "-", "-", "-", "a", "b", "", "#")}
		if bias == "cache" {
			x.CtxKey = vk.Pick(r, "-", "-", "a", "b", "b", "", "#")
		}
		if r.IntN(3) == 0 {
			x.Advance = vk.Pick(r, int64(1), 9, 10, 11, 99, 100, 101, 999, 1000, 1001, 5000)
		}
		ns := 1 + r.IntN(8)
		for s := 0; s < ns; s++ {
			st := estep{Res: vk.Pick(r, 0, 5, 5, 7, 9, 1000+e*100+s), Err: vk.Pick(r, 0, 0, 0, 1, 1, 1, 2, 2, 3, 3, 4, 4, 5, 5, 6, 6, 7, 8)}
			if p.hasShort && r.IntN(4) == 0 {
				st.Block = true
			}
			x.Script = append(x.Script, st)
			if st.Block {
				x.Entry |= 1 // a blocking step needs the Execution to wait for its cancellation
			}
		}
		p.Execs = append(p.Execs, x)
	}
	return p
}

func (s estep) String() string {
	b := ""
	if s.Block {
		b = "block;"
	}
	return fmt.Sprintf("(%s%d,%s)", b, s.Res, c02ErrNames[s.Err])
}

// genHedgeWaitProgram: [outer retry/fallback]? > timeout! > [retry/fallback/timeout]? > hedge(wait delay) > [retry/fallback/timeout]*
// with scripts made of blocking steps only (see polSpec.WaitDelay).
func genHedgeWaitProgram(r *rand.Rand, bias string) program {
	p := program{Bias: bias, hasShort: true}
	pick := func(kinds ...string) {
		pl := genPol(r, kinds[r.IntN(len(kinds))])
		pl.Short = false
		if pl.Kind == "retry" && pl.MaxRetries < 0 || pl.MaxRetries > 2 {
			pl.MaxRetries = 1
		}
		p.Pols = append(p.Pols, pl)
	}
	if r.IntN(2) == 0 {
		pick("retry", "fallback")
	}
	to := genPol(r, "timeout")
	to.Short = true
	p.Pols = append(p.Pols, to)
	if r.IntN(2) == 0 {
		pick("retry", "fallback", "timeout")
	}
	h := genPol(r, "hedge")
	h.MaxHedges, h.CancelNone, h.WaitDelay = 1+r.IntN(2), true, true
	p.Pols = append(p.Pols, h)
	for i := r.IntN(3); i > 0; i-- {
		pick("retry", "fallback", "timeout")
	}
	p.ExecLis = vk.Pick(r, uint32(7), 7, 5, 6, 0)
	ne := 1 + r.IntN(2)
	for e := 0; e < ne; e++ {
		x := execSpec{Entry: r.IntN(8) | 1, CtxKey: "-"}
		for s := 0; s < 8; s++ {
			x.Script = append(x.Script, estep{Res: vk.Pick(r, 0, 5, 7, 9), Err: vk.Pick(r, 0, 1, 2), Block: true})
		}
		p.Execs = append(p.Execs, x)
	}
	return p
}
