package checks

import (
	"github.com/failsafe-go/failsafe-go"
	"github.com/failsafe-go/failsafe-go/common"
)

// probePolicy is a transparent user-defined policy (the library's documented extension point: a Policy whose executor
// has an Apply method). It brackets whatever is composed inside it, which gives the monitors a timestamp that is
// guaranteed to precede the inner policy's start and one that follows its return, plus the PolicyResult it returned.
type probePolicy struct {
	before func(exec failsafe.Execution[int]) any
	after  func(exec failsafe.Execution[int], token any, result *common.PolicyResult[int])
}

func (p *probePolicy) ToExecutor(_ int) any { return &probeExecutor{p} }

type probeExecutor struct{ p *probePolicy }

func (e *probeExecutor) Apply(innerFn func(failsafe.Execution[int]) *common.PolicyResult[int]) func(failsafe.Execution[int]) *common.PolicyResult[int] {
	return func(exec failsafe.Execution[int]) *common.PolicyResult[int] {
		var tok any
		if e.p.before != nil {
			tok = e.p.before(exec)
		}
		r := innerFn(exec)
		if e.p.after != nil {
			e.p.after(exec, tok, r)
		}
		return r
	}
}
