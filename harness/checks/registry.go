// Package checks holds one runtime-monitoring check per property.
package checks

import "verifharness/vk"

// Registry maps a property id to its check.
var Registry = map[string]func(*vk.Report){}

func register(id string, fn func(*vk.Report)) { Registry[id] = fn }

// scale returns q for the quick tier and t for the thorough tier.
func scale(r *vk.Report, q, t int) int {
	if r.Tier == "thorough" {
		return t
	}
	return q
}
