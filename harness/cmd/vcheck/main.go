// vcheck runs one property check (sub-command = property id) and writes <out>/result.json.
package main

import (
	"flag"
	"fmt"
	"os"
	"strconv"

	"verifharness/checks"
	"verifharness/vk"
)

func main() {
	if len(os.Args) < 2 {
		fmt.Fprintln(os.Stderr, "usage: vcheck <property> [-tier quick|thorough] [-seed n] [-only idx] -out dir")
		os.Exit(3)
	}
	prop := os.Args[1]
	vk.StartHeartbeat() // process stall detector used by the few elapsed-time upper-bound rules
	fs := flag.NewFlagSet(prop, flag.ExitOnError)
	tier := fs.String("tier", "quick", "quick|thorough")
	seed := fs.Int64("seed", 1, "seed")
	only := fs.Int("only", -1, "replay only this case index")
	outDir := fs.String("out", ".", "output directory")
	fs.Parse(os.Args[2:])
	if s := os.Getenv("VERIF_SEED"); s != "" && !isSet(fs, "seed") {
		if v, err := strconv.ParseInt(s, 10, 64); err == nil {
			*seed = v
		}
	}
	fn, ok := checks.Registry[prop]
	if !ok {
		fmt.Fprintln(os.Stderr, "unknown property", prop)
		os.Exit(3)
	}
	rep := vk.NewReport(prop, *tier, *seed, *only)
	fn(rep)
	if err := rep.Write(*outDir); err != nil {
		fmt.Fprintln(os.Stderr, "write:", err)
		os.Exit(3)
	}
}

func isSet(fs *flag.FlagSet, name string) bool {
	set := false
	fs.Visit(func(f *flag.Flag) {
		if f.Name == name {
			set = true
		}
	})
	return set
}
