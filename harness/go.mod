module verifharness

go 1.23

require (
	github.com/anishathalye/porcupine v1.3.0
	github.com/failsafe-go/failsafe-go v0.0.0
	google.golang.org/grpc v1.67.1
)

require github.com/bits-and-blooms/bitset v1.20.0 // indirect

replace github.com/failsafe-go/failsafe-go => /repo
