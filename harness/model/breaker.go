// Package model holds the executable reference models the monitors compare the real library against. They are written
// from the package documentation (list based windows, explicit state), not from the implementation.
package model

import (
	"fmt"
	"math"
)

const (
	Closed   = 0
	Open     = 1
	HalfOpen = 2
)

func StateName(s int) string { return [...]string{"closed", "open", "half-open"}[s] }

// BreakerCfg mirrors the builder's documented options.
type BreakerCfg struct {
	Kind          string // "count" | "ratio" | "period-count" | "period-rate"
	FailThreshold uint   // count, ratio, period-count
	FailCapacity  uint   // ratio denominator (== FailThreshold for count and period-count)
	RateThreshold uint   // period-rate: percent 1..100
	ExecThreshold uint   // period-rate: min executions; period-count: == FailThreshold
	Period        int64  // ns, time based kinds (multiple of 10)
	SuccKind      string // "" | "count" | "ratio"
	SuccThreshold uint
	SuccCapacity  uint
	Delay         int64 // ns
}

type rec struct {
	fail bool
	t    int64
}

// Metrics is the five-tuple the breaker reports.
type Metrics struct{ Execs, Fails, Succs, FailRate, SuccRate uint }

// Event is one emitted state change.
type Event struct {
	Old, New int
	Alts     []MetricsAlt // admissible metrics of the old state at the transition
	Judged   bool
}

// Breaker is the reference machine. Time is supplied by the caller through Now.
type Breaker struct {
	Cfg   BreakerCfg
	State int
	Now   int64

	closed    []rec // count based: last capacity results; time based: results still possibly in the window
	lastRecAt int64 // time of the last record in the closed state (time based metrics are only refreshed on record)
	trial     []rec // half-open ring
	permits   int   // half-open permits left
	taken     int   // half-open permits acquired and not yet returned by a record
	unjudged  bool  // A4: a record arrived without a permit in this half-open episode
	openedAt  int64
	delay     int64
	carried   []MetricsAlt // metrics alternatives frozen when opening
	dirtyOpen bool         // A2: a result was recorded while open
	Events    []Event
	Ambiguous int // number of set-valued decisions resolved from the observation
}

// MetricsAlt is one admissible window's raw counts.
type MetricsAlt struct{ Execs, Fails uint }

func NewBreaker(cfg BreakerCfg) *Breaker { return &Breaker{Cfg: cfg} }

func (b *Breaker) Clone() *Breaker {
	c := *b
	c.closed = append([]rec(nil), b.closed...)
	c.trial = append([]rec(nil), b.trial...)
	c.carried = append([]MetricsAlt(nil), b.carried...)
	c.Events = nil
	return &c
}

// Key is a canonical rendering of the model state (used as porcupine state identity).
func (b *Breaker) Key() string {
	return fmt.Sprintf("%d|%v|%v|%d|%d|%v|%d|%d|%v|%v", b.State, b.closed, b.trial, b.permits, b.taken, b.unjudged, b.openedAt, b.delay, b.carried, b.dirtyOpen)
}

func (b *Breaker) timeBased() bool { return b.Cfg.Period != 0 }

func (b *Breaker) closedCapacity() uint {
	if b.Cfg.ExecThreshold != 0 {
		return b.Cfg.ExecThreshold
	}
	return b.Cfg.FailCapacity
}

func (b *Breaker) trialCapacity() uint {
	if b.Cfg.SuccCapacity != 0 {
		return b.Cfg.SuccCapacity
	}
	if b.Cfg.ExecThreshold != 0 {
		return b.Cfg.ExecThreshold
	}
	return b.Cfg.FailCapacity
}

func count(rs []rec) (n, f uint) {
	for _, r := range rs {
		n++
		if r.fail {
			f++
		}
	}
	return
}

// windows returns the admissible windows of the closed time based statistics at time now: every suffix that contains
// all results of the most recent nine tenths of the period and none older than the period.
func (b *Breaker) windows(now int64) []MetricsAlt {
	if !b.timeBased() {
		n, f := count(b.closed)
		return []MetricsAlt{{n, f}}
	}
	slice := b.Cfg.Period / 10
	var must, opt []rec
	for _, r := range b.closed {
		age := now - r.t
		switch {
		case age <= 9*slice:
			must = append(must, r)
		case age <= b.Cfg.Period:
			opt = append(opt, r)
		}
	}
	n, f := count(must)
	alts := []MetricsAlt{{n, f}}
	// opt is in time order; suffixes add the most recent optional results first
	for i := len(opt) - 1; i >= 0; i-- {
		n++
		if opt[i].fail {
			f++
		}
		alts = append(alts, MetricsAlt{n, f})
	}
	return alts
}

func (b *Breaker) prune(now int64) {
	if !b.timeBased() {
		return
	}
	keep := b.closed[:0]
	for _, r := range b.closed {
		if now-r.t <= b.Cfg.Period {
			keep = append(keep, r)
		}
	}
	b.closed = keep
}

// rateMeets reports whether 100*f/n >= thr: 1 yes, 0 no, -1 undetermined (rounding of the rate is unspecified).
func rateMeets(f, n, thr uint) int {
	if n == 0 {
		if thr == 0 {
			return 1
		}
		return 0
	}
	exact := 100 * float64(f) / float64(n)
	if exact == math.Trunc(exact) {
		if exact >= float64(thr) {
			return 1
		}
		return 0
	}
	if exact >= float64(thr)+1 {
		return 1
	}
	if exact <= float64(thr)-1 {
		return 0
	}
	return -1
}

// closedDecision: 1 must open, 0 must stay, -1 either.
func (b *Breaker) closedDecision(alts []MetricsAlt) int {
	res := -2
	for _, a := range alts {
		d := 0
		if a.Execs >= b.Cfg.ExecThreshold {
			if b.Cfg.RateThreshold != 0 {
				d = rateMeets(a.Fails, a.Execs, b.Cfg.RateThreshold)
			} else if a.Fails >= b.Cfg.FailThreshold {
				d = 1
			}
		}
		if res == -2 {
			res = d
		} else if res != d {
			res = -1
		}
		if res == -1 {
			return -1
		}
	}
	return res
}

// trialDecision returns Closed, Open, or -1 (stay half-open), or -2 for either close/open ambiguity on rate rounding.
func (b *Breaker) trialDecision() int {
	n, f := count(b.trial)
	s := n - f
	c := b.Cfg
	if c.SuccThreshold != 0 {
		if s >= c.SuccThreshold {
			return Closed
		}
		if f > c.SuccCapacity-c.SuccThreshold {
			return Open
		}
		return -1
	}
	if c.RateThreshold != 0 {
		if n < c.ExecThreshold {
			return -1
		}
		switch rateMeets(f, n, c.RateThreshold) {
		case 1:
			return Open
		case 0:
			return Closed
		}
		return -2
	}
	// count based: close is decided first
	if s > c.FailCapacity-c.FailThreshold {
		return Closed
	}
	if f >= c.FailThreshold {
		return Open
	}
	return -1
}

func (b *Breaker) to(s int) {
	if b.State == s {
		return
	}
	old := b.State
	alts, judged := b.MetricsAlts()
	switch s {
	case Closed:
		b.closed = nil
		b.lastRecAt = b.Now
	case Open:
		b.openedAt = b.Now
		b.carried = alts
		b.dirtyOpen = !judged
	case HalfOpen:
		b.trial = nil
		b.permits = int(b.trialCapacity())
		b.taken = 0
		b.unjudged = false
	}
	b.State = s
	b.Events = append(b.Events, Event{old, s, alts, judged})
}

// Record applies one recorded result. delay is the open delay to use if this record opens the breaker (the fixed
// delay, or the delay function's value when the record came from an execution). observed is the state the real
// breaker shows afterwards; it is consulted only where the documented behaviour is set-valued. Returns "" or a mismatch.
func (b *Breaker) Record(fail bool, delay int64, observed int) string {
	switch b.State {
	case Closed:
		if b.timeBased() {
			b.prune(b.Now)
			b.closed = append(b.closed, rec{fail, b.Now})
			b.lastRecAt = b.Now
		} else {
			b.closed = append(b.closed, rec{fail, b.Now})
			if cp := int(b.closedCapacity()); len(b.closed) > cp {
				b.closed = b.closed[len(b.closed)-cp:]
			}
		}
		d := b.closedDecision(b.windows(b.Now))
		if d == -1 {
			b.Ambiguous++
			if observed == Open {
				d = 1
			} else {
				d = 0
			}
		}
		if d == 1 {
			b.delay = delay
			b.to(Open)
		}
	case Open:
		b.dirtyOpen = true
	case HalfOpen:
		b.trial = append(b.trial, rec{fail, b.Now})
		if cp := int(b.trialCapacity()); len(b.trial) > cp {
			b.trial = b.trial[len(b.trial)-cp:]
		}
		if b.taken > 0 {
			b.taken--
		} else {
			b.unjudged = true
		}
		d := b.trialDecision()
		if d == -2 {
			b.Ambiguous++
			if observed == Open {
				d = Open
			} else {
				d = Closed
			}
		}
		b.permits++
		switch d {
		case Closed:
			b.to(Closed)
		case Open:
			b.delay = delay
			b.to(Open)
		}
	}
	if observed >= 0 && observed != b.State {
		return fmt.Sprintf("state after record(fail=%v): model %s, observed %s", fail, StateName(b.State), StateName(observed))
	}
	return ""
}

// TryAcquire applies a permit request. observed is the real answer (-1: none, predict). Returns the model's answer and
// a mismatch description.
func (b *Breaker) TryAcquire(observed int) (bool, string) {
	ans := true
	switch b.State {
	case Open:
		if b.Now-b.openedAt >= b.delay {
			b.to(HalfOpen)
			ans = b.takeTrial(observed)
		} else {
			ans = false
		}
	case HalfOpen:
		ans = b.takeTrial(observed)
	}
	if observed >= 0 && (observed == 1) != ans {
		return ans, fmt.Sprintf("TryAcquirePermit in %s: model %v, observed %v", StateName(b.State), ans, observed == 1)
	}
	return ans, ""
}

func (b *Breaker) takeTrial(observed int) bool {
	if b.unjudged && observed >= 0 {
		// A4: admission is not judged once a record arrived without a permit; follow the observation
		b.Ambiguous++
		if observed == 1 {
			b.taken++
			if b.permits > 0 {
				b.permits--
			}
			return true
		}
		return false
	}
	if b.permits > 0 {
		b.permits--
		b.taken++
		return true
	}
	return false
}

func (b *Breaker) ManualOpen() {
	if b.State != Open {
		b.delay = b.Cfg.Delay
	}
	b.toManual(Open)
}
func (b *Breaker) ManualHalfOpen() { b.toManual(HalfOpen) }
func (b *Breaker) ManualClose()    { b.toManual(Closed) }

func (b *Breaker) toManual(s int) { b.to(s) }

// RemainingDelay is the documented remaining open delay.
func (b *Breaker) RemainingDelay() int64 {
	if b.State != Open {
		return 0
	}
	if r := b.delay - (b.Now - b.openedAt); r > 0 {
		return r
	}
	return 0
}

// MetricsAlts returns the admissible raw counts of the current state's metrics and whether they are judged (A2).
func (b *Breaker) MetricsAlts() (alts []MetricsAlt, judged bool) {
	switch b.State {
	case Closed:
		if !b.timeBased() {
			return b.windows(b.Now), true
		}
		// The reported window is only refreshed when a result is recorded: any suffix between the smallest window
		// admissible now and the largest admissible at the last record.
		lo := int(b.windows(b.Now)[0].Execs)
		w := b.windows(b.lastRecAt)
		hi := int(w[len(w)-1].Execs)
		for k := lo; k <= hi && k <= len(b.closed); k++ {
			n, f := count(b.closed[len(b.closed)-k:])
			alts = append(alts, MetricsAlt{n, f})
		}
		return alts, true
	case Open:
		return b.carried, !b.dirtyOpen
	default:
		n, f := count(b.trial)
		return []MetricsAlt{{n, f}}, true
	}
}

// MetricsMatch checks an observed five-tuple against the admissible windows; reported rates may be rounded either way.
func MetricsMatch(alts []MetricsAlt, m Metrics) bool {
	for _, a := range alts {
		if a.Execs != m.Execs || a.Fails != m.Fails || a.Execs-a.Fails != m.Succs {
			continue
		}
		if rateOK(a.Fails, a.Execs, m.FailRate) && rateOK(a.Execs-a.Fails, a.Execs, m.SuccRate) {
			return true
		}
	}
	return false
}

func rateOK(k, n, reported uint) bool {
	if n == 0 {
		return reported == 0
	}
	exact := 100 * float64(k) / float64(n)
	return math.Abs(exact-float64(reported)) < 1
}
