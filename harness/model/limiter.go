package model

// Limiter is the reference rate limiter: permits fill aligned interval slots (smooth) or periods (bursty) in request
// order; a permit assigned to a slot/period that starts after the request instant becomes usable when it starts.
type Limiter struct {
	Smooth   bool
	Interval int64 // smooth: ns per permit
	Period   int64 // bursty
	Max      int64 // bursty: permits per period
	// next free position
	NextSlot   int64 // smooth: first slot index without a permit
	NextPeriod int64 // bursty: earliest period that may still have room
	Used       int64 // bursty: permits already assigned in NextPeriod
}

func (l *Limiter) Clone() *Limiter { c := *l; return &c }

// Acquire requests k permits at instant t with max wait mw (-1: none). Returns the wait, or -1 when refused (no state
// change).
func (l *Limiter) Acquire(t int64, k int64, mw int64) int64 {
	if l.Smooth {
		s0 := t / l.Interval
		if l.NextSlot > s0 {
			s0 = l.NextSlot
		}
		last := s0 + k - 1
		wait := last*l.Interval - t
		if wait < 0 {
			wait = 0
		}
		if mw != -1 && wait > mw {
			return -1
		}
		l.NextSlot = last + 1
		return wait
	}
	cur := t / l.Period
	np, used := l.NextPeriod, l.Used
	if np < cur {
		np, used = cur, 0
	}
	// place k permits starting at (np, used)
	rem := k
	p, u := np, used
	for rem > 0 {
		room := l.Max - u
		if room <= 0 {
			p, u = p+1, 0
			continue
		}
		take := room
		if take > rem {
			take = rem
		}
		u += take
		rem -= take
	}
	wait := p*l.Period - t
	if wait < 0 {
		wait = 0
	}
	if mw != -1 && wait > mw {
		return -1
	}
	l.NextPeriod, l.Used = p, u
	return wait
}

// Deficit reports whether permits are already assigned beyond the period containing t.
func (l *Limiter) Deficit(t int64) bool {
	if l.Smooth {
		return l.NextSlot > t/l.Interval+1
	}
	return l.NextPeriod > t/l.Period
}
