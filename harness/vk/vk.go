// Package vk is the small kernel shared by all checks: seeded PRNG streams, the report (violations, inconclusive
// notes, measured coverage) and its JSON form read by the ./run driver.
package vk

import (
	"encoding/json"
	"fmt"
	"hash/fnv"
	"math/rand/v2"
	"os"
	"path/filepath"
	"sort"
	"sync"
	"sync/atomic"
	"time"
)

// Rng returns a PCG stream that is a function of (seed, label, idx) only.
func Rng(seed int64, label string, idx int) *rand.Rand {
	h := fnv.New64a()
	h.Write([]byte(label))
	return rand.New(rand.NewPCG(uint64(seed)*0x9E3779B97F4A7C15+uint64(idx), h.Sum64()^uint64(idx)*0xD1342543DE82EF95))
}

// Pick returns a uniformly chosen element.
func Pick[T any](r *rand.Rand, xs ...T) T { return xs[r.IntN(len(xs))] }

// Violation is one refuting observation.
type Violation struct {
	Sig  string `json:"sig"`  // stable signature used for known-finding matching and de-duplication
	Msg  string `json:"msg"`  // human readable
	Case any    `json:"case"` // the case that replays it
	Idx  int    `json:"idx"`  // case index within the seed's case list
}

// Report accumulates what a check run observed.
type Report struct {
	Property string
	Tier     string
	Seed     int64
	Only     int // replay: only this case index (-1 = all)
	Start    time.Time

	mu           sync.Mutex
	violations   []Violation
	vioCount     map[string]int
	inconclusive []string
	distinct     map[string]struct{}
	samples      []any
	counters     map[string]*atomic.Int64
	evaluations  atomic.Int64
	abort        atomic.Bool
	vioTotal     int
	Rule         string
	Assumptions  []string
	Extra        map[string]any
}

func NewReport(prop, tier string, seed int64, only int) *Report {
	return &Report{Property: prop, Tier: tier, Seed: seed, Only: only, Start: time.Now(),
		vioCount: map[string]int{}, distinct: map[string]struct{}{}, counters: map[string]*atomic.Int64{}, Extra: map[string]any{}}
}

// Skip reports whether case idx is excluded by a replay restriction.
func (r *Report) Skip(idx int) bool { return r.Only >= 0 && idx != r.Only || r.abort.Load() }

// Abort stops exploring further cases (used once a violation makes further rounds pointless or very slow).
func (r *Report) Abort() { r.abort.Store(true) }

func (r *Report) Eval() { r.evaluations.Add(1) }

func (r *Report) EvalN(n int64) { r.evaluations.Add(n) }

// Violate records a violation; at most 5 full records are kept per signature, all are counted.
func (r *Report) Violate(idx int, sig, msg string, c any) {
	r.mu.Lock()
	defer r.mu.Unlock()
	r.vioCount[sig]++
	r.vioTotal++
	if r.vioCount[sig] <= 5 {
		r.violations = append(r.violations, Violation{Sig: sig, Msg: msg, Case: c, Idx: idx})
	}
}

func (r *Report) Inconclusive(reason string) {
	r.mu.Lock()
	defer r.mu.Unlock()
	if len(r.inconclusive) < 50 {
		r.inconclusive = append(r.inconclusive, reason)
	}
}

// Distinct records a non-trivial case signature.
func (r *Report) Distinct(key string) {
	r.mu.Lock()
	r.distinct[key] = struct{}{}
	r.mu.Unlock()
}

// Sample keeps up to 5 written-out cases.
func (r *Report) Sample(s any) {
	r.mu.Lock()
	if len(r.samples) < 5 {
		r.samples = append(r.samples, s)
	}
	r.mu.Unlock()
}

func (r *Report) WantSample() bool {
	r.mu.Lock()
	defer r.mu.Unlock()
	return len(r.samples) < 5
}

// Count adds n to a named measured counter.
func (r *Report) Count(name string, n int64) {
	r.mu.Lock()
	c := r.counters[name]
	if c == nil {
		c = &atomic.Int64{}
		r.counters[name] = c
	}
	r.mu.Unlock()
	c.Add(n)
}

// Counter returns a counter handle for hot paths.
func (r *Report) Counter(name string) *atomic.Int64 {
	r.mu.Lock()
	defer r.mu.Unlock()
	c := r.counters[name]
	if c == nil {
		c = &atomic.Int64{}
		r.counters[name] = c
	}
	return c
}

func (r *Report) Get(name string) int64 {
	r.mu.Lock()
	defer r.mu.Unlock()
	if c := r.counters[name]; c != nil {
		return c.Load()
	}
	return 0
}

// Require marks the run inconclusive unless counter name reached min (an interleaving class that had to be observed).
func (r *Report) Require(name string, min int64) {
	if r.Only >= 0 {
		return
	}
	if got := r.Get(name); got < min {
		r.Inconclusive(fmt.Sprintf("required observation class %q seen %d times, need >= %d", name, got, min))
	}
}

type out struct {
	Property     string           `json:"property"`
	Tier         string           `json:"tier"`
	Seed         int64            `json:"seed"`
	Evaluations  int64            `json:"evaluations"`
	Distinct     int              `json:"distinct_nontrivial"`
	Rule         string           `json:"rule"`
	Samples      []any            `json:"samples"`
	Counters     map[string]int64 `json:"counters"`
	Extra        map[string]any   `json:"extra"`
	Violations   []Violation      `json:"violations"`
	VioCounts    map[string]int   `json:"violation_counts"`
	Inconclusive []string         `json:"inconclusive"`
	Assumptions  []string         `json:"assumptions"`
	WallS        float64          `json:"wall_s"`
}

// Write stores the report as <dir>/result.json.
func (r *Report) Write(dir string) error {
	r.mu.Lock()
	defer r.mu.Unlock()
	o := out{Property: r.Property, Tier: r.Tier, Seed: r.Seed, Evaluations: r.evaluations.Load(), Distinct: len(r.distinct),
		Rule: r.Rule, Samples: r.samples, Counters: map[string]int64{}, Extra: r.Extra, Violations: r.violations,
		VioCounts: r.vioCount, Inconclusive: r.inconclusive, Assumptions: r.Assumptions, WallS: time.Since(r.Start).Seconds()}
	for k, c := range r.counters {
		o.Counters[k] = c.Load()
	}
	sort.Slice(o.Violations, func(i, j int) bool { return o.Violations[i].Idx < o.Violations[j].Idx })
	b, err := json.MarshalIndent(o, "", " ")
	if err != nil {
		return err
	}
	return os.WriteFile(filepath.Join(dir, "result.json"), b, 0o644)
}

// Parallel runs fn(idx) for idx in [0,n) on w workers.
func Parallel(n, w int, fn func(idx int)) {
	if w < 1 {
		w = 1
	}
	var next atomic.Int64
	var wg sync.WaitGroup
	for i := 0; i < w; i++ {
		wg.Add(1)
		go func() {
			defer wg.Done()
			for {
				idx := int(next.Add(1)) - 1
				if idx >= n {
					return
				}
				fn(idx)
			}
		}()
	}
	wg.Wait()
}

// Pick2 chooses deterministically between two alternatives from a key (for derived configuration values that must not
// consume PRNG state).
func Pick2[T any](key int, a, b T) T {
	if key%2 == 0 {
		return a
	}
	return b
}

// ---- process stall detector -------------------------------------------------------------------------------------------
//
// A few rules are upper bounds on elapsed time ("completed no later than the wait it was in would have ended"). They are
// only meaningful while this process is being scheduled: a heartbeat goroutine ticks every 5ms and remembers every gap
// of 100ms or more between two ticks; a rule whose interval overlaps a long gap is not judged.

var (
	hbOnce sync.Once
	hbMu   sync.Mutex
	hbGaps [][2]time.Time // [from, to] of gaps >= 100ms, in time order (bounded)
	hbLast atomic.Int64   // unix nanos of the last tick
)

// StartHeartbeat starts the stall detector (idempotent).
func StartHeartbeat() {
	hbOnce.Do(func() {
		hbLast.Store(time.Now().UnixNano())
		go func() {
			prev := time.Now()
			for {
				time.Sleep(5 * time.Millisecond)
				now := time.Now()
				if now.Sub(prev) >= 100*time.Millisecond {
					hbMu.Lock()
					if len(hbGaps) < 100000 {
						hbGaps = append(hbGaps, [2]time.Time{prev, now})
					}
					hbMu.Unlock()
				}
				prev = now
				hbLast.Store(now.UnixNano())
			}
		}()
	})
}

// StalledBetween returns the longest time the heartbeat went without a tick in an interval overlapping [a, b] (including
// a gap that is still open at b).
func StalledBetween(a, b time.Time) time.Duration {
	if hbLast.Load() == 0 {
		return 0 // detector not running: nothing is known, every rule is judged
	}
	var worst time.Duration
	hbMu.Lock()
	for _, g := range hbGaps {
		if g[1].After(a) && g[0].Before(b) {
			if d := g[1].Sub(g[0]); d > worst {
				worst = d
			}
		}
	}
	hbMu.Unlock()
	if last := time.Unix(0, hbLast.Load()); last.Before(b) {
		if d := b.Sub(last); d > worst {
			worst = d
		}
	}
	return worst
}
