#!/usr/bin/env python3
"""Regenerates MANIFEST.json from checks.json (the per-check texts) so the manifest stays schema-valid."""
import json, subprocess, os
V = os.path.dirname(os.path.abspath(__file__))
checks = json.load(open(os.path.join(V, "checks.json")))
props = [json.loads(l)["id"] for l in open(os.path.join(V, "properties.jsonl"))]
hook_commits = subprocess.run(["git", "-C", "/repo", "log", "--format=%H %s", "--grep=^verif hooks"], capture_output=True, text=True).stdout.strip().splitlines()
m = {
 "version": 1,
 "setup_cmd": "./setup.sh",
 "hooks": {
  "guard": "verif (Go build tag)",
  "enable": "go build -tags verif (harness module replaces github.com/failsafe-go/failsafe-go => /repo); ./run builds harness/cmd/vcheck on every invocation, with -race for the concurrent checks",
  "baseline_off_cmd": "./baseline_off.sh",
  "source_commits": [c.split()[0] for c in hook_commits],
  "add_only": True,
 },
 "engines": [
  {"name": "E-seq", "path": "harness/checks/eseq*.go + harness/model", "serves_properties": ["C01", "C10", "C11", "C16", "C17"], "kind_free_text": "sequential differential engine: generated programs run for real and through an executable reference model"},
  {"name": "E-obj", "path": "harness/checks/c04.go c05.go c06.go", "serves_properties": ["C04", "C05", "C06", "C14"], "kind_free_text": "shared-object engine: concurrent clients, histories recorded at the client boundary, porcupine + conservation invariants, race detector on"},
  {"name": "E-race", "path": "harness/checks/c07.go c08.go c09.go c15.go c19.go", "serves_properties": ["C07", "C08", "C09", "C15", "C19"], "kind_free_text": "schedule-hostile engine: event-triggered cancellations/timeouts, yield plans at tag-guarded hook points"},
 ],
 "checks": [],
 "not_applicable": [],
 "notes": "All checks are runtime monitors over executions of the real library (see DESIGN.md). ./run exits 0 held / 1 VIOLATION / 2 INCONCLUSIVE. known_findings.json lists recorded and fixed defects.",
}
for p in props:
    c = checks.get(p)
    if not c or c.get("na"):
        m["not_applicable"].append({"property_id": p, "reason": (c or {}).get("na", "check not built yet in this revision of /verif (work in progress; see DESIGN.md section 4 for the planned monitor)")})
        continue
    m["checks"].append({
        "property_id": p,
        "quick_cmd": "./run %s quick" % p,
        "thorough_cmd": "./run %s thorough" % p,
        "evidence_file": "evidence/%s.json" % p,
        "replay_cmd_template": "./run %s --replay {path}" % p,
        "engine": c.get("engine", ""),
        "level_claimed": {"category": "exploration", "text": c["text"], "design_ref": "DESIGN.md section 4, " + p},
        "level_note": c["note"],
        "technique": c["technique"],
    })
json.dump(m, open(os.path.join(V, "MANIFEST.json"), "w"), indent=1)
print("checks:", len(m["checks"]), "not_applicable:", len(m["not_applicable"]))
