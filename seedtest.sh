#!/bin/bash
# usage: seedtest.sh <patch.diff> <property> [tier]   -- applies a seeded change to /repo, runs the check, restores /repo
set -u
patch=$1; prop=$2; tier=${3:-quick}
cd /repo || exit 3
if [ -n "$(git status --porcelain)" ]; then echo "/repo not clean"; exit 3; fi
git apply "$patch" 2>/dev/null || git apply -3 "$patch" || { echo "patch does not apply"; git reset -q --hard HEAD; exit 3; }
trap "git -C /repo reset -q --hard HEAD; git -C /repo clean -fdq" EXIT INT TERM
cd /verif && ./run "$prop" "$tier"; rc=$?
git -C /repo reset -q --hard HEAD; git -C /repo clean -fdq
echo "seedtest rc=$rc"
exit $rc
