#!/bin/bash
# usage: seedtest.sh <patch.diff> <property> [tier]   -- applies a seeded change to /repo, runs the check, restores /repo
set -u
patch=$1; prop=$2; tier=${3:-quick}
cd /repo || exit 3
if [ -n "$(git status --porcelain)" ]; then echo "/repo not clean"; exit 3; fi
git apply "$patch" || { echo "patch does not apply"; exit 3; }
cd /verif && ./run "$prop" "$tier"; rc=$?
git -C /repo checkout -- . ; git -C /repo clean -fdq
echo "seedtest rc=$rc"
exit $rc
