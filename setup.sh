#!/bin/bash
# Builds the harness once (plain and -race) from files on disk only; warms the Go build cache.
set -e
export GOFLAGS=-mod=mod GOPROXY=off GOSUMDB=off GOTOOLCHAIN=local CGO_ENABLED=1
cd "$(dirname "$0")/harness"
cp /repo/go.sum go.sum.repo 2>/dev/null || true
mkdir -p ../bin/setup
go build -tags verif -o ../bin/setup/vcheck ./cmd/vcheck
go build -race -tags verif -o ../bin/setup/vcheck-race ./cmd/vcheck
rm -f go.sum.repo
echo "setup ok"
